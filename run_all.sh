#!/bin/bash
# Runs every registered check (default tier quick) on /repo's working tree and prints one line each.
tier=${1:-quick}
cd "$(dirname "$(readlink -f "$0")")"
# background runs started with `vp run --with-repo` work on a snapshot of /repo
if [ -n "$VP_RUN_REPO" ]; then ln -sfn "$VP_RUN_REPO" repo; fi
fail=0
for p in $(./check --list); do
  s=$(date +%s)
  out=$(./check $p --tier $tier 2>&1); rc=$?
  e=$(( $(date +%s) - s ))
  echo "$p rc=$rc ${e}s :: $(echo "$out" | tail -1 | cut -c1-170)"
  [ $rc -ne 0 ] && fail=1 && echo "$out" | grep -E "^VIOLATION|^MACHINERY" | head -5
done
exit $fail

//! C16 — every signature maps to 3 distinct in-range cells, the same at build
//! and query time. Pure arithmetic: enumerate (ShardEdge impl, n, eps,
//! max_shard) set-ups and the cross product of extreme signature fields.
use sux::func::shard_edge::*;
use sux::utils::Sig;
use vh::rt::*;

fn vals() -> Vec<u64> {
    let mut v = vec![0u64, 1, (1 << 32) - 1, 1 << 32, (1 << 32) + 1, 1 << 63, u64::MAX - 1, u64::MAX, 0x5555_5555_5555_5555, 0xAAAA_AAAA_AAAA_AAAA];
    for j in 0..64 {
        v.push(1 << j);
        v.push(!(1u64 << j));
        v.push((1u64 << j).wrapping_sub(1));
    }
    v.sort();
    v.dedup();
    v
}

fn ns(thorough: bool) -> Vec<usize> {
    let mut ns: Vec<usize> = (0..=if thorough { 60_000 } else { 2_500 }).collect();
    for k in 0..40 {
        let p = 1usize << k;
        ns.extend([p.saturating_sub(1), p, p + 1]);
    }
    let mut p = 10usize;
    while p <= 1_000_000_000_000 {
        ns.extend([p - 1, p, p + 1]);
        p *= 10;
    }
    for j in 1..=20 {
        ns.extend([50_000 * j - 1, 50_000 * j, 50_000 * j + 1]);
    }
    // just below each shard-count switch of the linear regime (largest shard > 100 000)
    for s in [2usize, 4, 8] {
        let hi = 100_000 * s;
        ns.extend([hi - 1, hi * 100 / 101 + 1, hi * 100 / 101 + 2, hi - hi / 200]);
    }
    for j in 0..8 {
        let b = 10_000_000usize << j;
        ns.extend([b - 1, b, b + 1]);
    }
    let mut x = 20_001f64;
    let f = if thorough { 1.01 } else { 1.12 };
    while x < 1e12 {
        ns.push(x as usize);
        x *= f;
    }
    ns.sort();
    ns.dedup();
    ns
}

fn legal_setup_panic(m: &str) -> bool {
    // documented limits: too many vertices for the 32-bit vertex type
    m.contains("u32::MAX") || m.contains("does not support more than") || m.contains("TryFromIntError") || m.contains("assertion failed: (self.l as usize + 2)")
}

fn check<S: Sig + Copy + std::fmt::Debug, E: ShardEdge<S, 3>>(ctx: &mut Ctx, name: &str, mk: &dyn Fn(u64, u64) -> S) {
    let vs = vals();
    let thorough = ctx.thorough();
    for &n in &ns(thorough) {
        for eps in [0.001, 0.01, 0.1] {
            for ms_kind in 0..2 {
                if !ctx.case(|| format!("{name}::set_up n={n} eps={eps} max_shard_kind={ms_kind}")) {
                    continue;
                }
                let r = guard(|| {
                    let mut e = E::default();
                    e.set_up_shards(n, eps);
                    let s = e.num_shards();
                    let ms = if s == 1 {
                        n
                    } else if ms_kind == 0 {
                        n.div_ceil(s)
                    } else {
                        ((1.01 * n as f64) / s as f64).floor() as usize
                    };
                    e.set_up_graphs(n, ms);
                    (e, ms)
                });
                let (e, ms) = match r {
                    Outcome::Ret(x) => x,
                    Outcome::Panic(m) => {
                        if legal_setup_panic(&m) {
                            ctx.count("legal_setup_panic");
                        } else {
                            ctx.violation(&format!("C16|{name}::set_up_graphs|panic"), format!("n={n} eps={eps}: {m}"));
                        }
                        continue;
                    }
                };
                let s = e.num_shards();
                if s == 1 && ms_kind == 1 {
                    // same set-up as ms_kind == 0
                    ctx.count("dup_setup");
                    continue;
                }
                let _ = ms;
                let nv = e.num_vertices();
                let hb = e.shard_high_bits();
                let mask = (1u64 << hb) - 1;
                ctx.nontrivial();
                if s > 1 {
                    ctx.count("sharded_setups");
                }
                let step = if n > 1_000_000 { 5 } else if n > 2500 { 3 } else { 1 };
                let mut h = 0u64;
                // Signatures at the steps of the fixed-point inversions: a vertex is floor(x M / 2^64) (or 2^32) for
                // some word x derived from the signature by shifts/rotations involving the shard bits, and M one of
                // the cell counts of the geometry. Values of x within a few units (at least the number of shards)
                // of a step k 2^64 / M, pulled back through every candidate derivation, for k at both ends and the
                // middle. This depends only on the public geometry, not on which derivation the code uses.
                let seg = nv / (e.num_sort_keys() + 2).max(1);
                let mut ms: Vec<u128> = vec![nv as u128, nv.saturating_sub(2 * seg) as u128, (nv / 3) as u128, seg as u128];
                ms.retain(|&m| m >= 2);
                ms.sort();
                ms.dedup();
                let mut xs: Vec<u64> = vec![];
                for &m in &ms {
                    for k in [1u128, 2, 3, m / 2, m - 2, m - 1] {
                        if k == 0 || k >= m {
                            continue;
                        }
                        let b64 = ((k << 64) + m - 1) / m;
                        let b32 = ((k << 32) + m - 1) / m;
                        let dmax = (s as i64 + 2).min(18);
                        for d in -2..=dmax {
                            let y = (b64 as i128 + d as i128).clamp(0, u64::MAX as i128) as u64;
                            xs.push(y);
                            let y32 = (b32 as i64 + d).clamp(0, u32::MAX as i64) as u64;
                            xs.extend([y32 << 32, y32 << 32 | 0xFFFF_FFFF, y32, 0xFFFF_FFFF_0000_0000 | y32]);
                        }
                    }
                }
                let mut pulled: Vec<u64> = vec![];
                for &y in &xs {
                    for j in [0, hb, hb + 1] {
                        pulled.extend([y.rotate_left(j), y.rotate_right(j), y.checked_shr(j).unwrap_or(0), y.checked_shr(j).unwrap_or(0) | (mask.checked_shl(64 - j).unwrap_or(0))]);
                    }
                }
                pulled.sort();
                pulled.dedup();
                ctx.add("step_boundary_signature_words", pulled.len() as u64);
                let bs = [0u64, 1, u64::MAX, 0x5555_5555_5555_5555, 1 << 32, (1 << 32) - 1];
                let pairs = vs.iter().enumerate().flat_map(|(ia, &a)| vs.iter().enumerate().filter(move |(ib, _)| (ia + ib) % step == 0).map(move |(_, &b)| (a, b)));
                let extra = pulled.iter().enumerate().flat_map(|(ia, &a)| bs.iter().enumerate().filter(move |(ib, _)| (ia + ib) % step == 0).map(move |(_, &b)| (a, b)));
                {
                    for (a, b) in pairs.chain(extra) {
                        let sig = mk(a, b);
                        ctx.sub_evaluations += 1;
                        let ed = e.edge(sig);
                        let sh = e.shard(sig);
                        let le = e.local_edge(e.local_sig(sig));
                        let sk = e.sort_key(sig);
                        h = h.wrapping_mul(31).wrapping_add(ed[0] as u64 ^ ((ed[1] as u64) << 20) ^ ((ed[2] as u64) << 40));
                        let mut bad: Option<&str> = None;
                        if ed[0] == ed[1] || ed[1] == ed[2] || ed[0] == ed[2] {
                            bad = Some("not-distinct");
                        }
                        if ed.iter().any(|&v| v >= nv * s) {
                            bad = Some("out-of-array");
                        } else if sh >= s || ed.iter().any(|&v| v < sh * nv || v >= (sh + 1) * nv) {
                            bad = Some("outside-shard-slice");
                        }
                        if (0..3).any(|i| ed[i] != le[i] + sh * nv) {
                            bad = Some("edge!=local_edge+base");
                        }
                        if sk >= e.num_sort_keys() {
                            bad = Some("sort_key>=num_sort_keys");
                        }
                        if sh as u64 != sig.high_bits(hb, mask) {
                            bad = Some("shard!=store-high-bits");
                        }
                        if let Some(m) = bad {
                            ctx.violation(
                                &format!("C16|{name}::edge|{m}"),
                                format!("n={n} eps={eps} sig={sig:?} edge={ed:?} local_edge={le:?} shard={sh} nv={nv} shards={s} sort_key={sk} num_sort_keys={}", e.num_sort_keys()),
                            );
                        }
                    }
                }
                ctx.outcome(h);
            }
        }
    }
}

fn main() {
    let mut ctx = Ctx::from_args();
    start_watchdog(120);
    check::<[u64; 2], FuseLge3Shards>(&mut ctx, "FuseLge3Shards", &|a, b| [a, b]);
    check::<[u64; 2], FuseLge3NoShards>(&mut ctx, "FuseLge3NoShards<[u64;2]>", &|a, b| [a, b]);
    check::<[u64; 1], FuseLge3NoShards>(&mut ctx, "FuseLge3NoShards<[u64;1]>", &|a, b| [a ^ b.rotate_left(17)]);
    check::<[u64; 2], FuseLge3FullSigs>(&mut ctx, "FuseLge3FullSigs", &|a, b| [a, b]);
    check::<[u64; 2], Mwhc3Shards>(&mut ctx, "Mwhc3Shards", &|a, b| [a, b]);
    check::<[u64; 2], Mwhc3NoShards>(&mut ctx, "Mwhc3NoShards", &|a, b| [a, b]);
    ctx.finish();
}

//! C18 — the signature store returns every pair exactly once, in the shard
//! numbered by the top bits of its signature.
use std::fmt::Debug;
use sux::utils::*;
use vh::rt::*;

trait VX: epserde::traits::ZeroCopy + Send + Sync + Copy + 'static {
    const NAME: &'static str;
    fn mk(i: u64) -> Self;
    fn as_u64(&self) -> u64;
}
impl VX for u8 {
    const NAME: &'static str = "u8";
    fn mk(i: u64) -> Self {
        (i * 37 + 1) as u8
    }
    fn as_u64(&self) -> u64 {
        *self as u64
    }
}
impl VX for u64 {
    const NAME: &'static str = "u64";
    fn mk(i: u64) -> Self {
        mix(i)
    }
    fn as_u64(&self) -> u64 {
        *self
    }
}
impl VX for EmptyVal {
    const NAME: &'static str = "EmptyVal";
    fn mk(_: u64) -> Self {
        EmptyVal::default()
    }
    fn as_u64(&self) -> u64 {
        0
    }
}

trait SX: Sig + epserde::traits::ZeroCopy + Send + Sync + Copy + Debug + 'static {
    const NAME: &'static str;
    fn mk(class: u64, class_bits: u32, d: u64) -> Self;
    fn words(&self) -> [u64; 2];
}
fn sig0(class: u64, class_bits: u32, d: u64) -> u64 {
    // top bits = class, distinguishable low bits, a one just below the class so that
    // the bits after the shard bits are not all zero
    (if class_bits == 0 { 0 } else { class << (64 - class_bits) }) | (1u64 << (62 - class_bits)) | (d << 7) | 1
}
impl SX for [u64; 2] {
    const NAME: &'static str = "[u64;2]";
    fn mk(class: u64, class_bits: u32, d: u64) -> Self {
        [sig0(class, class_bits, d), 0xABCD_0000 + d]
    }
    fn words(&self) -> [u64; 2] {
        *self
    }
}
impl SX for [u64; 1] {
    const NAME: &'static str = "[u64;1]";
    fn mk(class: u64, class_bits: u32, d: u64) -> Self {
        [sig0(class, class_bits, d)]
    }
    fn words(&self) -> [u64; 2] {
        [self[0], 0]
    }
}

type Item = ([u64; 2], u64);

fn run<S: SX, V: VX, St: SigStore<S, V>>(mut st: St, s: u32, items: &[(S, V)]) -> Vec<(&'static str, String)> {
    let mut errs: Vec<(&'static str, String)> = vec![];
    for &(sig, val) in items {
        if let Err(e) = st.try_push(SigVal { sig, val }) {
            errs.push(("SigStore::try_push", format!("error {e}")));
            return errs;
        }
    }
    if st.len() != items.len() || st.is_empty() != items.is_empty() {
        errs.push(("SigStore::len", format!("len() = {} expected {}", st.len(), items.len())));
    }
    let mut sh = match st.into_shard_store(s) {
        Ok(x) => x,
        Err(e) => {
            errs.push(("SigStore::into_shard_store", format!("error {e}")));
            return errs;
        }
    };
    let expect = |j: usize| -> Vec<Item> {
        let mut v: Vec<Item> = items.iter().filter(|(sig, _)| (if s == 0 { 0 } else { sig.words()[0] >> (64 - s) }) as usize == j).map(|(sig, val)| (sig.words(), val.as_u64())).collect();
        v.sort();
        v
    };
    let norm = |a: &Vec<SigVal<S, V>>| -> Vec<Item> {
        let mut v: Vec<Item> = a.iter().map(|x| (x.sig.words(), x.val.as_u64())).collect();
        v.sort();
        v
    };
    if sh.shard_sizes().len() != 1 << s {
        errs.push(("ShardStore::shard_sizes", format!("{} entries expected {}", sh.shard_sizes().len(), 1 << s)));
    }
    for j in 0..(1usize << s).min(sh.shard_sizes().len()) {
        if sh.shard_sizes()[j] != expect(j).len() {
            errs.push(("ShardStore::shard_sizes", format!("shard_sizes()[{j}] = {} expected {}", sh.shard_sizes()[j], expect(j).len())));
            break;
        }
    }
    if ShardStore::len(&sh) != items.len() {
        errs.push(("ShardStore::len", format!("{} expected {}", ShardStore::len(&sh), items.len())));
    }
    // borrowed iterations abandoned after k shards (k = 1, half, all but one, 0), each followed by a complete
    // one: an abandoned pass must leave nothing behind (file cursors, buffers) that the next pass trusts
    let total = 1usize << s;
    for (round, k) in [1usize, total / 2, total.saturating_sub(1), 0].into_iter().enumerate() {
        for (j, a) in sh.iter().take(k).enumerate() {
            if norm(&a) != expect(j) {
                errs.push(("ShardStore::iter", format!("abandoned pass {round}: shard {j} wrong")));
                break;
            }
        }
        let shards: Vec<Vec<Item>> = sh.iter().map(|a| norm(&a)).collect();
        if shards.len() != total || shards.iter().enumerate().any(|(j, v)| *v != expect(j)) {
            errs.push(("ShardStore::iter", format!("the pass after a borrowed iteration abandoned after {k} of {total} shards yields {} shards / wrong contents", shards.len())));
            break;
        }
    }
    for round in 0..2 {
        let shards: Vec<Vec<Item>> = sh.iter().map(|a| norm(&a)).collect();
        if shards.len() != 1 << s {
            errs.push(("ShardStore::iter", format!("round {round}: {} shards expected {}", shards.len(), 1 << s)));
        }
        for (j, v) in shards.iter().enumerate() {
            if *v != expect(j) {
                errs.push(("ShardStore::iter", format!("round {round}: shard {j} holds {} pairs {:x?}, expected {:x?}", v.len(), &v[..v.len().min(3)], &expect(j)[..expect(j).len().min(3)])));
                break;
            }
        }
    }
    let shards: Vec<Vec<Item>> = sh.into_iter().map(|a| norm(&a)).collect();
    if shards.len() != 1 << s {
        errs.push(("ShardStore::into_iter", format!("{} shards expected {}", shards.len(), 1 << s)));
    }
    for (j, v) in shards.iter().enumerate() {
        if *v != expect(j) {
            errs.push(("ShardStore::into_iter", format!("shard {j} holds {} pairs, expected {}", v.len(), expect(j).len())));
            break;
        }
    }
    errs
}

fn multisets(classes: usize, maxsize: usize) -> Vec<Vec<usize>> {
    fn rec(classes: usize, left: usize, lo: usize, cur: &mut Vec<usize>, out: &mut Vec<Vec<usize>>) {
        out.push(cur.clone());
        if left == 0 {
            return;
        }
        for c in lo..classes {
            cur.push(c);
            rec(classes, left - 1, c, cur, out);
            cur.pop();
        }
    }
    let mut out = vec![];
    rec(classes, maxsize, 0, &mut vec![], &mut out);
    out
}

fn space<S: SX, V: VX>(ctx: &mut Ctx, maxbits: u32, maxsize: usize) {
    for b in 0..=maxbits {
        for m in 0..=maxbits {
            for s in 0..=m {
                let cb = b.max(m).max(1);
                let lists = multisets(1 << cb, maxsize);
                for offline in [false, true] {
                    if !ctx.case(|| format!("SigStore S={} V={} bucket_bits={b} max_shard_bits={m} shard_bits={s} offline={offline} ({} multisets of size <= {maxsize} over {} classes)", S::NAME, V::NAME, lists.len(), 1 << cb)) {
                        continue;
                    }
                    ctx.nontrivial();
                    for l in &lists {
                        ctx.sub_evaluations += 1;
                        if l.len() >= 2 {
                            ctx.nontrivial_extra += 1;
                        }
                        let items: Vec<(S, V)> = l.iter().enumerate().map(|(i, &c)| (S::mk(c as u64, cb, (i % 2) as u64), V::mk(i as u64))).collect();
                        one::<S, V>(ctx, b, m, s, offline, &items, &format!("classes={l:?}"));
                    }
                }
            }
        }
    }
}

fn one<S: SX, V: VX>(ctx: &mut Ctx, b: u32, m: u32, s: u32, offline: bool, items: &[(S, V)], what: &str) {
    let r = guard(|| {
        if offline {
            run(new_offline::<S, V>(b, m, None).unwrap(), s, items)
        } else {
            run(new_online::<S, V>(b, m, Some(items.len())).unwrap(), s, items)
        }
    });
    let kind = if offline { "offline" } else { "online" };
    match r {
        Outcome::Panic(msg) => ctx.violation(&format!("C18|SigStore<{kind}>|panic"), format!("b={b} m={m} s={s} {what}: {msg}")),
        Outcome::Ret(errs) => {
            for (site, e) in errs {
                ctx.violation(&format!("C18|{site}<{kind}>|wrong-answer"), format!("b={b} m={m} s={s} {what}: {e}"));
            }
        }
    }
}

fn skewed<S: SX, V: VX>(ctx: &mut Ctx, thorough: bool) {
    // heavily skewed high bits and more pairs than the 1024-entry read buffer of the on-disk splitter
    let configs: &[(u32, u32, u32)] = if thorough { &[(0, 0, 0), (2, 4, 3), (4, 2, 2), (3, 3, 0), (8, 16, 3), (8, 16, 0), (1, 16, 1), (8, 10, 10)] } else { &[(2, 4, 3), (4, 2, 2), (8, 16, 3), (8, 16, 0), (8, 16, 1), (8, 16, 4), (0, 16, 2), (1, 16, 1), (3, 16, 4)] };
    for &(b, m, s) in configs {
        let cb = b.max(m).max(1).min(10);
        for (nm, n, f) in [
            ("all-in-class-0", 1000usize, Box::new(|_i: usize| 0u64) as Box<dyn Fn(usize) -> u64>),
            ("all-in-last-class", 1000, Box::new(move |_i: usize| (1u64 << cb) - 1)),
            ("two-classes-3000", 3000, Box::new(move |i: usize| if i % 3 == 0 { 0 } else { (1u64 << cb) - 1 })),
            ("spread-2500", 2500, Box::new(move |i: usize| mix(i as u64) & ((1u64 << cb) - 1))),
            // buckets holding exact multiples of the 1024-pair read buffer of the on-disk splitter
            ("all-in-class-0-exactly-1024", 1024, Box::new(|_i: usize| 0u64)),
            ("all-in-last-class-exactly-2048", 2048, Box::new(move |_i: usize| (1u64 << cb) - 1)),
            ("two-classes-exactly-1024-and-3072", 4096, Box::new(move |i: usize| if i % 4 == 0 { 0 } else { (1u64 << cb) - 1 })),
        ] {
            for offline in [false, true] {
                if !ctx.case(|| format!("SigStore S={} V={} bucket_bits={b} max_shard_bits={m} shard_bits={s} offline={offline} skew={nm} n={n}", S::NAME, V::NAME)) {
                    continue;
                }
                ctx.nontrivial();
                let items: Vec<(S, V)> = (0..n).map(|i| (S::mk(f(i), cb, i as u64), V::mk(i as u64))).collect();
                one::<S, V>(ctx, b, m, s, offline, &items, nm);
            }
        }
    }
}

fn main() {
    let mut ctx = Ctx::from_args();
    start_watchdog(300);
    let t = ctx.thorough();
    let (mb, ms) = if t { (4, 4) } else { (3, 4) };
    space::<[u64; 2], u64>(&mut ctx, mb, ms);
    space::<[u64; 1], u8>(&mut ctx, mb.min(3), 3);
    space::<[u64; 2], EmptyVal>(&mut ctx, mb.min(3), 3);
    if t {
        space::<[u64; 1], u64>(&mut ctx, 3, 4);
        space::<[u64; 2], u8>(&mut ctx, 3, 4);
        space::<[u64; 1], EmptyVal>(&mut ctx, 3, 4);
    }
    skewed::<[u64; 2], u64>(&mut ctx, t);
    skewed::<[u64; 1], u8>(&mut ctx, t);
    skewed::<[u64; 2], EmptyVal>(&mut ctx, t);
    ctx.finish();
}

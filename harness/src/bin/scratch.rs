use sux::prelude::*;
use vh::rt::*;
fn main() {
    install_handlers();
    let idx = 0usize;
    let checks: [(&str, Box<dyn Fn(&mut BitVec) -> ()>); 2] = [
        ("get", Box::new(move |b: &mut BitVec| { let _ = b.get(idx); })),
        ("set", Box::new(move |b: &mut BitVec| b.set(idx, true))),
    ];
    for (s, f) in checks.iter() {
        let mut b = unsafe { BitVec::from_raw_parts(vec![1usize], 0) };
        let r = guard(|| f(&mut b));
        println!("{s} {}", r.is_panic());
    }
    let b = unsafe { BitVec::from_raw_parts(vec![1usize], 0) };
    let r = guard(|| { let _ = b.get(idx); });
    println!("direct {}", r.is_panic());
    let r = guard(|| { b.get(idx) });
    println!("direct2 {}", r.is_panic());
}

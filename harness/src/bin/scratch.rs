use sux::prelude::*;
fn main() {
    let b: BitVec = (0..100).map(|i| i % 3 == 0).collect();
    let s: SelectSmall<1, 9, RankSmall<1, 9>> = SelectSmall::<1, 9, _>::new(rank_small![1; b]);
    println!("{:?}", s.select(3));
}

use dsi_progress_logger::no_logging;
use sux::prelude::*;
use sux::func::shard_edge::*;
use sux::utils::FromIntoIterator;
fn main() {
    let n: usize = std::env::args().nth(1).unwrap().parse().unwrap();
    let which = std::env::args().nth(2).unwrap();
    if which == "a" {
        let f = VBuilder::<usize, Box<[usize]>, [u64; 2], Mwhc3NoShards>::default().expected_num_keys(n).try_build_func(FromIntoIterator::from(0..n), FromIntoIterator::from(0..n), no_logging![]).unwrap();
        assert_eq!(f.len(), n);
    } else {
        let g = VBuilder::<usize, BitFieldVec<usize>, [u64; 2], Mwhc3Shards>::default().expected_num_keys(n).try_build_func(FromIntoIterator::from(0..n), FromIntoIterator::from(0..n), no_logging![]).unwrap();
        assert_eq!(g.len(), n);
    }
}

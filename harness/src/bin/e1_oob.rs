//! C12 — no safe call reads or writes outside its buffers: every structure x
//! every safe method that forwards to unchecked code x out-of-domain arguments,
//! executed in the strict profile (std UB checks turn an out-of-range
//! get_unchecked into a process abort, which the supervisor records as a
//! memory-safety violation). A call may return or panic (unwinding); where the
//! documentation fixes the result for out-of-domain input (rank beyond len,
//! select beyond the count, queries for absent values) the result is checked.
use dsi_progress_logger::no_logging;
use lender::*;
use std::sync::atomic::Ordering::Relaxed;
use sux::func::shard_edge::*;
use sux::prelude::*;
use sux::traits::bit_field_slice::*;
use sux::traits::{IntoIteratorFrom, IntoReverseUncheckedIterator, IntoUncheckedIterator};
use sux::utils::FromIntoIterator;
use vh::rt::*;

fn ood(len: usize) -> Vec<usize> {
    let mut v = vec![len, len.saturating_add(1), len.saturating_mul(2), len.saturating_add(63), len.saturating_add(64), 1 << 32, 1 << 63, usize::MAX / 2 + 1, usize::MAX - 1, usize::MAX];
    v.sort();
    v.dedup();
    v
}

/// One probed call: returns Some(value) if it returned.
fn probe<T>(ctx: &mut Ctx, site: &str, what: impl FnOnce() -> String, f: impl FnOnce() -> T) -> Option<T> {
    if !ctx.case(|| format!("{site} {}", what())) {
        return None;
    }
    ctx.nontrivial();
    match guard(f) {
        Outcome::Ret(t) => {
            ctx.count("returned");
            Some(t)
        }
        Outcome::Panic(_) => {
            ctx.count("panicked(unwinding)");
            None
        }
    }
}

fn expect<T: PartialEq + std::fmt::Debug>(ctx: &mut Ctx, site: &str, what: &str, got: Option<T>, want: T) {
    if let Some(g) = got {
        if g != want {
            ctx.violation(&format!("C12|{site}|wrong-documented-result"), format!("{what}: returned {g:?}, documented result {want:?}"));
        }
    }
}

fn bitvecs() -> Vec<(String, Vec<bool>)> {
    let mut v = vec![];
    for len in [0usize, 1, 63, 64, 65, 130, 512, 1000] {
        v.push((format!("zeros({len})"), vec![false; len]));
        v.push((format!("ones({len})"), vec![true; len]));
        v.push((format!("every3rd({len})"), (0..len).map(|i| i % 3 == 0).collect()));
    }
    v
}

fn bit_vectors(ctx: &mut Ctx) {
    for (name, bits) in bitvecs() {
        let n = bits.len();
        let mk = || -> BitVec { bits.iter().copied().collect() };
        // iterator adaptors that an implementation may override (nth, and through it skip and step_by), with
        // arguments landing at and beyond the end
        for k in ood(n).into_iter().chain([n.saturating_sub(1), 1, 64, 1000]) {
            let ones = bits.iter().filter(|&&b| b).count();
            probe(ctx, "BitVec::iter().nth", || format!("{name} k={k}"), || (mk().iter().nth(k), (&mk()).into_iter().nth(k)));
            probe(ctx, "BitVec::iter().skip", || format!("{name} k={k}"), || mk().iter().skip(k).take(3).count());
            probe(ctx, "BitVec::iter().step_by", || format!("{name} step={k}"), || mk().iter().step_by(k.max(1)).take(n + 2).count());
            probe(ctx, "BitVec::iter_ones().nth", || format!("{name} k={k}"), || (mk().iter_ones().nth(k.min(ones + 70)), mk().iter_zeros().nth(k.min(n + 70))));
            probe(ctx, "BitVec::iter() nth after the end", || format!("{name} k={k}"), || {
                let b = mk();
                let mut it = b.iter();
                let _ = it.nth(n);
                (it.nth(k.min(1 << 20)), it.next())
            });
        }
        for i in ood(n) {
            probe(ctx, "BitVec::get", || format!("{name} index={i}"), || mk().get(i));
            probe(ctx, "BitVec::index", || format!("{name} index={i}"), || mk()[i]);
            probe(ctx, "BitVec::set", || format!("{name} index={i}"), || mk().set(i, true));
            probe(ctx, "BitVec<Box>::set", || format!("{name} index={i}"), || {
                let mut b: BitVec<Box<[usize]>> = mk().into();
                b.set(i, true)
            });
            probe(ctx, "AtomicBitVec::get", || format!("{name} index={i}"), || {
                let a: AtomicBitVec = mk().into();
                a.get(i, Relaxed)
            });
            probe(ctx, "AtomicBitVec::set", || format!("{name} index={i}"), || {
                let a: AtomicBitVec = mk().into();
                a.set(i, true, Relaxed)
            });
            probe(ctx, "AtomicBitVec::swap", || format!("{name} index={i}"), || {
                let a: AtomicBitVec = mk().into();
                a.swap(i, true, Relaxed)
            });
            probe(ctx, "AtomicBitVec::index", || format!("{name} index={i}"), || {
                let a: AtomicBitVec = mk().into();
                a[i]
            });
        }
        // iterators polled past the end
        probe(ctx, "BitVec::iter_ones", || format!("{name} polled 3 times after None"), || {
            let b = mk();
            let mut it = b.iter_ones();
            while it.next().is_some() {}
            (it.next(), it.next(), it.next())
        });
        probe(ctx, "BitVec::iter_zeros", || format!("{name} polled 3 times after None"), || {
            let b = mk();
            let mut it = b.iter_zeros();
            while it.next().is_some() {}
            (it.next(), it.next(), it.next())
        });
        probe(ctx, "BitVec::iter", || format!("{name} polled after None"), || {
            let b = mk();
            let mut it = b.iter();
            while it.next().is_some() {}
            (it.next(), it.next())
        });
        probe(ctx, "BitVec::pop", || format!("{name} popped len+2 times"), || {
            let mut b = mk();
            for _ in 0..n + 2 {
                b.pop();
            }
            b.len()
        });
        probe(ctx, "BitVec::fill/flip/count", || name.clone(), || {
            let mut b = mk();
            b.fill(true);
            b.flip();
            b.reset();
            (b.count_ones(), b.par_count_ones())
        });
        // rank / select structures: out-of-domain positions and ranks
        let ones = bits.iter().filter(|&&x| x).count();
        let zeros = n - ones;
        macro_rules! rs {
            ($sname:expr, $build:expr, rank: $rank:tt, sel: $sel:tt, selz: $selz:tt) => {{
                rs!(@rank $rank, $sname, $build);
                rs!(@sel $sel, $sname, $build);
                rs!(@selz $selz, $sname, $build);
            }};
            (@rank true, $sname:expr, $build:expr) => {
                for p in ood(n) {
                    let g = probe(ctx, &format!("{}::rank", $sname), || format!("{name} pos={p}"), || $build.rank(p));
                    expect(ctx, &format!("{}::rank", $sname), &format!("{name} rank({p})"), g, ones);
                    let g = probe(ctx, &format!("{}::rank_zero", $sname), || format!("{name} pos={p}"), || $build.rank_zero(p));
                    if p == n {
                        expect(ctx, &format!("{}::rank_zero", $sname), &format!("{name} rank_zero({p})"), g, zeros);
                    }
                }
            };
            (@rank false, $sname:expr, $build:expr) => {};
            (@sel true, $sname:expr, $build:expr) => {
                for r in ood(ones) {
                    let g = probe(ctx, &format!("{}::select", $sname), || format!("{name} rank={r}"), || $build.select(r));
                    expect(ctx, &format!("{}::select", $sname), &format!("{name} select({r})"), g, None);
                }
            };
            (@sel false, $sname:expr, $build:expr) => {};
            (@selz true, $sname:expr, $build:expr) => {
                for r in ood(zeros) {
                    let g = probe(ctx, &format!("{}::select_zero", $sname), || format!("{name} rank={r}"), || $build.select_zero(r));
                    expect(ctx, &format!("{}::select_zero", $sname), &format!("{name} select_zero({r})"), g, None);
                }
            };
            (@selz false, $sname:expr, $build:expr) => {};
        }
        rs!("Rank9", Rank9::new(mk()), rank: true, sel: false, selz: false);
        rs!("RankSmall<2,9>", rank_small![0; mk()], rank: true, sel: false, selz: false);
        rs!("RankSmall<1,9>", rank_small![1; mk()], rank: true, sel: false, selz: false);
        rs!("RankSmall<1,10>", rank_small![2; mk()], rank: true, sel: false, selz: false);
        rs!("RankSmall<1,11>", rank_small![3; mk()], rank: true, sel: false, selz: false);
        rs!("RankSmall<3,13>", rank_small![4; mk()], rank: true, sel: false, selz: false);
        rs!("Select9", Select9::new(Rank9::new(mk())), rank: true, sel: true, selz: false);
        rs!("SelectZeroAdapt<SelectAdapt<AddNumBits>>", SelectZeroAdapt::new(SelectAdapt::new(AddNumBits::from(mk()), 3), 3), rank: false, sel: true, selz: true);
        rs!("SelectZeroAdapt<SelectAdapt<Rank9>> with_inv(0,0)", SelectZeroAdapt::with_inv(SelectAdapt::with_inv(Rank9::new(mk()), 0, 0), 0, 0), rank: true, sel: true, selz: true);
        rs!("SelectZeroAdaptConst<SelectAdaptConst<AddNumBits>>", SelectZeroAdaptConst::<_, _>::new(SelectAdaptConst::<_, _>::new(AddNumBits::from(mk()))), rank: false, sel: true, selz: true);
        rs!("SelectZeroSmall<SelectSmall<RankSmall<1,9>>>", SelectZeroSmall::<1, 9, _>::new(SelectSmall::<1, 9, _>::new(rank_small![1; mk()])), rank: true, sel: true, selz: true);
        rs!("SelectZeroSmall<SelectSmall<RankSmall<3,13>>>", SelectZeroSmall::<3, 13, _>::new(SelectSmall::<3, 13, _>::new(rank_small![4; mk()])), rank: true, sel: true, selz: true);
        rs!("SelectZeroAdapt<Select9>", SelectZeroAdapt::new(Select9::new(Rank9::new(mk())), 3), rank: true, sel: true, selz: true);
    }
}

macro_rules! bit_field_vectors {
    ($ctx:expr, $W:ty, $widths:expr) => {{
        let ctx: &mut Ctx = $ctx;
        let wn = stringify!($W);
        for &w in $widths {
            let k = if w == 0 { 3 } else { (<$W>::BITS as usize).div_ceil(w) };
            for len in [0usize, 1, k, k + 1, 3 * k + 1] {
                let mask: $W = if w == 0 { 0 } else { <$W>::MAX >> (<$W>::BITS as usize - w) };
                let mk = || {
                    let mut b = BitFieldVec::<$W>::new(w, len);
                    for i in 0..len {
                        b.set(i, (mix(i as u64) as $W) & mask);
                    }
                    b
                };
                let d = format!("W={wn} width={w} len={len}");
                for i in ood(len) {
                    probe(ctx, "BitFieldVec::get", || format!("{d} index={i}"), || mk().get(i));
                    probe(ctx, "BitFieldVec::set", || format!("{d} index={i}"), || mk().set(i, 0));
                    probe(ctx, "BitFieldVec::iter_from", || format!("{d} from={i}"), || mk().iter_from(i).count());
                    probe(ctx, "BitFieldVec::into_iter_from", || format!("{d} from={i}"), || (&mk()).into_iter_from(i).count());
                    probe(ctx, "BitFieldVec::into_unchecked_iter_from", || format!("{d} from={i}"), || {
                        let b = mk();
                        let _it = (&b).into_unchecked_iter_from(i);
                    });
                    probe(ctx, "BitFieldVec::into_rev_unchecked_iter_from", || format!("{d} from={i}"), || {
                        let b = mk();
                        let _it = (&b).into_rev_unchecked_iter_from(i);
                    });
                    probe(ctx, "BitFieldVec::addr_of", || format!("{d} index={i}"), || mk().addr_of(i) as usize);
                    probe(ctx, "BitFieldVec::get_unaligned", || format!("{d} index={i}"), || mk().get_unaligned(i));
                    probe(ctx, "BitFieldVec::new_unaligned+get_unaligned", || format!("{d} index={i}"), || BitFieldVec::<$W>::new_unaligned(w, len).get_unaligned(i));
                    probe(ctx, "BitFieldVec::copy", || format!("{d} from={i} to=0 len=3"), || {
                        let s = mk();
                        let mut t = mk();
                        s.copy(i, &mut t, 0, 3)
                    });
                    probe(ctx, "BitFieldVec::copy", || format!("{d} from=0 to={i} len=3"), || {
                        let s = mk();
                        let mut t = mk();
                        s.copy(0, &mut t, i, 3)
                    });
                    probe(ctx, "BitFieldVec::copy", || format!("{d} from=0 to=0 len={i}"), || {
                        let s = mk();
                        let mut t = mk();
                        s.copy(0, &mut t, 0, i)
                    });
                    probe(ctx, "BitFieldVec::try_chunks_mut", || format!("{d} chunk_size={i}"), || mk().try_chunks_mut(i).map(|c| c.count()));
                }
                // indices inside the allocation but at/after len: the unaligned read must not be accepted silently with garbage
                for i in 0..len {
                    probe(ctx, "BitFieldVec::get_unaligned(no padding word)", || format!("{d} index={i}"), || mk().get_unaligned(i));
                }
                probe(ctx, "BitFieldVec::try_chunks_mut", || format!("{d} chunk_size=0"), || mk().try_chunks_mut(0).map(|c| c.count()));
                probe(ctx, "BitFieldVec::pop", || format!("{d} popped len+2 times"), || {
                    let mut b = mk();
                    for _ in 0..len + 2 {
                        b.pop();
                    }
                    b.len()
                });
                probe(ctx, "BitFieldVec::apply_in_place", || d.clone(), || mk().apply_in_place(|x| x));
                probe(ctx, "BitFieldVec::with_capacity+push", || d.clone(), || {
                    let mut b = BitFieldVec::<$W>::with_capacity(w, 0);
                    for _ in 0..len + 1 {
                        b.push(0);
                    }
                    b.len()
                });
                probe(ctx, "BitFieldVec::clear+iter", || d.clone(), || {
                    let mut b = mk();
                    b.clear();
                    b.iter().count() + b.iter_from(0).count()
                });
                probe(ctx, "BitFieldVec::into_rev_unchecked_iter", || d.clone(), || {
                    let b = mk();
                    let _ = (&b).into_rev_unchecked_iter();
                });
            }
        }
    }};
}

macro_rules! atomic_bit_field_vectors {
    ($ctx:expr, $W:ty, $widths:expr) => {{
        let ctx: &mut Ctx = $ctx;
        for &w in $widths {
            for len in [0usize, 1, 20] {
                let d = format!("W={} width={w} len={len}", stringify!($W));
                for i in ood(len) {
                    probe(ctx, "AtomicBitFieldVec::get_atomic", || format!("{d} index={i}"), || AtomicBitFieldVec::<$W>::new(w, len).get_atomic(i, Relaxed));
                    probe(ctx, "AtomicBitFieldVec::set_atomic", || format!("{d} index={i}"), || AtomicBitFieldVec::<$W>::new(w, len).set_atomic(i, 0, Relaxed));
                }
                probe(ctx, "AtomicBitFieldVec::reset_atomic", || d.clone(), || {
                    let mut a = AtomicBitFieldVec::<$W>::new(w, len);
                    a.reset_atomic(Relaxed);
                    a.par_reset_atomic(Relaxed);
                });
            }
        }
    }};
}

fn slices(ctx: &mut Ctx) {
    for len in [0usize, 1, 5] {
        for i in ood(len) {
            probe(ctx, "Vec<usize>::BitFieldSlice::get", || format!("len={len} index={i}"), || {
                let v: Vec<usize> = vec![7; len];
                BitFieldSlice::get(&v, i)
            });
            probe(ctx, "Vec<u8>::BitFieldSliceMut::set", || format!("len={len} index={i}"), || {
                let mut v: Vec<u8> = vec![7; len];
                BitFieldSliceMut::set(&mut v, i, 1)
            });
            probe(ctx, "Vec<usize>::BitFieldSliceMut::copy", || format!("len={len} from={i}"), || {
                let v: Vec<usize> = vec![7; len];
                let mut t: Vec<usize> = vec![1; len];
                BitFieldSliceMut::copy(&v, i, &mut t, 0, 2)
            });
        }
    }
}

fn elias_fano(ctx: &mut Ctx) {
    let seqs: Vec<(String, Vec<usize>, usize)> = vec![
        ("empty u=0".into(), vec![], 0),
        ("empty u=1000".into(), vec![], 1000),
        ("singleton [0] u=0".into(), vec![0], 0),
        ("singleton [7] u=100".into(), vec![7], 100),
        ("[1,50,70] u=100".into(), vec![1, 50, 70], 100),
        ("[0,0,0,3] u=3".into(), vec![0, 0, 0, 3], 3),
        ("70 dups u=1".into(), vec![1; 70], 1),
        ("200 spread u=2^40".into(), (0..200).map(|i| i << 30).collect(), 200 << 30),
        ("last == u == MAX".into(), vec![5, usize::MAX], usize::MAX),
    ];
    for (name, s, u) in seqs {
        let n = s.len();
        let mk = || {
            let mut b = EliasFanoBuilder::new(n, u);
            for &x in &s {
                b.push(x);
            }
            b.build_with_seq_and_dict()
        };
        for i in ood(n) {
            probe(ctx, "EliasFano::get", || format!("{name} index={i}"), || mk().get(i));
            probe(ctx, "EliasFano::iter_from", || format!("{name} from={i}"), || mk().iter_from(i).count());
            probe(ctx, "EliasFano::into_iter_from", || format!("{name} from={i}"), || (&mk()).into_iter_from(i).count());
        }
        let max = s.last().copied().unwrap_or(0);
        let mut qs = ood(u);
        qs.extend(ood(max));
        qs.extend([0, 1, u / 2, max / 2]);
        qs.sort();
        qs.dedup();
        for q in qs {
            let present = s.contains(&q);
            let g = probe(ctx, "EliasFano::index_of", || format!("{name} value={q}"), || mk().index_of(q));
            if !present {
                expect(ctx, "EliasFano::index_of", &format!("{name} index_of({q})"), g, None);
            }
            probe(ctx, "EliasFano::contains", || format!("{name} value={q}"), || mk().contains(q));
            let g = probe(ctx, "EliasFano::succ", || format!("{name} value={q}"), || mk().succ(q).map(|x| x.1));
            expect(ctx, "EliasFano::succ", &format!("{name} succ({q})"), g, s.iter().copied().find(|&x| x >= q));
            let g = probe(ctx, "EliasFano::succ_strict", || format!("{name} value={q}"), || mk().succ_strict(q).map(|x| x.1));
            expect(ctx, "EliasFano::succ_strict", &format!("{name} succ_strict({q})"), g, s.iter().copied().find(|&x| x > q));
            let g = probe(ctx, "EliasFano::pred", || format!("{name} value={q}"), || mk().pred(q).map(|x| x.1));
            expect(ctx, "EliasFano::pred", &format!("{name} pred({q})"), g, s.iter().rev().copied().find(|&x| x <= q));
            let g = probe(ctx, "EliasFano::pred_strict", || format!("{name} value={q}"), || mk().pred_strict(q).map(|x| x.1));
            expect(ctx, "EliasFano::pred_strict", &format!("{name} pred_strict({q})"), g, s.iter().rev().copied().find(|&x| x < q));
            probe(ctx, "EfDict::index_of", || format!("{name} value={q}"), || {
                let mut b = EliasFanoBuilder::new(n, u);
                for &x in &s {
                    b.push(x);
                }
                b.build_with_dict().index_of(q)
            });
        }
        probe(ctx, "EliasFano::iter", || format!("{name} polled after None"), || {
            let e = mk();
            let mut it = e.iter();
            while it.next().is_some() {}
            (it.next(), it.next())
        });
    }
    for (n, u) in [(0usize, 0usize), (0, 5), (1, usize::MAX), (3, 2), (usize::MAX, 1)] {
        if n == usize::MAX {
            continue; // allocation failure is not a verdict
        }
        probe(ctx, "EliasFanoBuilder::new+push", || format!("n={n} u={u} pushing n+1 values"), || {
            let mut b = EliasFanoBuilder::new(n, u);
            for _ in 0..=n {
                b.push(u);
            }
        });
    }
}

/// Elias-Fano dictionaries over a grid of (n, u): the length of the upper-bit vector (n + (u >> l) + 1)
/// takes every residue modulo 64, both builders, last element below u and equal to u; queries at and
/// beyond the universe. One case per structure; AUX1 = query, AUX2 = method.
fn elias_fano_grid(ctx: &mut Ctx) {
    let mut nus: Vec<(usize, usize)> = vec![];
    for n in 0..=66usize {
        for u in (0..=40).chain([62, 63, 64, 65, 126, 127, 128, 129, 255, 256, 511, 512, 513, 1023, 1024, 4095, 4096]) {
            nus.push((n, u));
        }
    }
    for n in [127usize, 128, 129, 1000] {
        for u in [0usize, 1, 127, 128, 1000, 1024, 16000, 16384, 1 << 20] {
            nus.push((n, u));
        }
    }
    for (n, u) in nus {
        for variant in 0..2 {
            for builder in 0..2 {
                if !ctx.case(|| format!("EliasFano::<grid> n={n} u={u} last={} builder={}", ["<u", "=u"][variant], ["sequential", "concurrent"][builder])) {
                    continue;
                }
                ctx.nontrivial();
                let mut s: Vec<usize> = (0..n).map(|i| (i as u128 * u as u128 / n.max(1) as u128) as usize).collect();
                if variant == 1 {
                    if let Some(l) = s.last_mut() {
                        *l = u;
                    }
                }
                let built = guard(|| {
                    if builder == 0 {
                        let mut b = EliasFanoBuilder::new(n, u);
                        for &x in &s {
                            b.push(x);
                        }
                        b.build_with_seq_and_dict()
                    } else {
                        let b = EliasFanoConcurrentBuilder::new(n, u);
                        for (i, &x) in s.iter().enumerate() {
                            // SAFETY: each index once, monotone values within u
                            unsafe { b.set(i, x) };
                        }
                        b.build_with_seq_and_dict()
                    }
                });
                let Outcome::Ret(ef) = built else {
                    ctx.count("panicked(unwinding)");
                    continue;
                };
                let mut qs = ood(u);
                qs.extend([0, 1, u / 2, u.saturating_sub(1), s.last().copied().unwrap_or(0), s.last().copied().unwrap_or(0) + 1]);
                qs.sort();
                qs.dedup();
                for &q in &qs {
                    AUX1.store(q as u64, std::sync::atomic::Ordering::Relaxed);
                    let mut m = 0u64;
                    let mut step = || {
                        m += 1;
                        AUX2.store(m, std::sync::atomic::Ordering::Relaxed);
                    };
                    macro_rules! q4 {
                        ($name:literal, $call:expr, $want:expr) => {{
                            step();
                            ctx.sub_evaluations += 1;
                            match guard(|| $call) {
                                Outcome::Ret(g) => {
                                    let want = $want;
                                    if g != want {
                                        ctx.violation(&format!("C12|EliasFano::{}|wrong-documented-result", $name), format!("n={n} u={u} builder={builder} seq ends {:?}: {}({q}) returned {g:?}, expected {want:?}", s.last(), $name));
                                    }
                                }
                                Outcome::Panic(_) => ctx.count("panicked(unwinding)"),
                            }
                        }};
                    }
                    q4!("succ", ef.succ(q).map(|x| x.1), s.iter().copied().find(|&x| x >= q));
                    q4!("succ_strict", ef.succ_strict(q).map(|x| x.1), s.iter().copied().find(|&x| x > q));
                    q4!("pred", ef.pred(q).map(|x| x.1), s.iter().rev().copied().find(|&x| x <= q));
                    q4!("pred_strict", ef.pred_strict(q).map(|x| x.1), s.iter().rev().copied().find(|&x| x < q));
                    q4!("contains", ef.contains(q), s.contains(&q));
                    q4!("index_of", ef.index_of(q).map(|i| s[i]), if s.contains(&q) { Some(q) } else { None });
                }
                for i in ood(n) {
                    AUX1.store(i as u64, std::sync::atomic::Ordering::Relaxed);
                    AUX2.store(100, std::sync::atomic::Ordering::Relaxed);
                    ctx.sub_evaluations += 2;
                    if let Outcome::Ret(x) = guard(|| ef.get(i)) {
                        ctx.violation("C12|EliasFano::get|out-of-range-accepted", format!("n={n} u={u}: get({i}) returned {x}"));
                    }
                    let _ = guard(|| ef.iter_from(i).count());
                }
            }
        }
    }
}

/// Growing operations on vectors whose backing store has spare capacity or spare words: every
/// (way of obtaining the slack, amount, growing operation, target) over boundary sizes. All arguments
/// are in-domain; what varies is the relation between length, backing words and capacity.
fn growth_with_slack(ctx: &mut Ctx) {
    let sizes = [0usize, 1, 63, 64, 65, 127, 128, 129, 200, 1000];
    for &c in &sizes {
        for how in 0..4 {
            for &m in &sizes {
                for op in 0..4 {
                    let desc = || format!("{} then {} (c={c}, m={m})", ["with_capacity(c)", "c pushes", "new(c) then clear-by-resize(0)", "from_raw_parts with 3 spare words"][how], ["resize(m,true)", "m pushes", "extend(m bits)", "resize(m,false) then set(m-1)"][op]);
                    probe(ctx, "BitVec::<growth-with-slack>", desc, || {
                        let mut b: BitVec = match how {
                            0 => BitVec::with_capacity(c),
                            1 => {
                                let mut b = BitVec::new(0);
                                for i in 0..c {
                                    b.push(i % 3 == 0);
                                }
                                b
                            }
                            2 => {
                                let mut b = BitVec::with_value(c, true);
                                b.resize(0, false);
                                b
                            }
                            _ => unsafe { BitVec::from_raw_parts(vec![usize::MAX; c.div_ceil(64) + 3], c) },
                        };
                        match op {
                            0 => b.resize(m, true),
                            1 => {
                                for i in 0..m {
                                    b.push(i % 2 == 0);
                                }
                            }
                            2 => b.extend((0..m).map(|i| i % 5 == 0)),
                            _ => {
                                b.resize(m, false);
                                if m > 0 {
                                    b.set(m - 1, true);
                                }
                            }
                        }
                        (b.len(), b.count_ones(), b.iter_ones().last())
                    });
                    for w in [0usize, 1, 7, 13, 64] {
                        probe(ctx, "BitFieldVec::<growth-with-slack>", || format!("width={w} {}", desc()), || {
                            let mut b: BitFieldVec<usize> = match how {
                                0 => BitFieldVec::with_capacity(w, c),
                                1 => {
                                    let mut b = BitFieldVec::new(w, 0);
                                    for _ in 0..c {
                                        b.push(0);
                                    }
                                    b
                                }
                                2 => {
                                    let mut b = BitFieldVec::new(w, c);
                                    b.resize(0, 0);
                                    b
                                }
                                _ => unsafe { BitFieldVec::from_raw_parts(vec![usize::MAX; (c * w).div_ceil(64) + 3], w, c) },
                            };
                            let top = if w == 0 { 0 } else { usize::MAX >> (64 - w) };
                            match op {
                                0 => b.resize(m, top),
                                1 => {
                                    for _ in 0..m {
                                        b.push(top);
                                    }
                                }
                                2 => b.extend((0..m).map(|_| top)),
                                _ => {
                                    b.resize(m, 0);
                                    if m > 0 {
                                        b.set(m - 1, top);
                                    }
                                }
                            }
                            (b.len(), b.iter().filter(|&x| x == top).count())
                        });
                    }
                }
            }
        }
    }
}

fn rear_coded(ctx: &mut Ctx) {
    let lists: Vec<(String, Vec<String>)> = vec![
        ("empty".into(), vec![]),
        ("[\"\"]".into(), vec!["".into()]),
        ("[a,ab,abc,b]".into(), vec!["a".into(), "ab".into(), "abc".into(), "b".into()]),
        ("8 sorted".into(), (0..8).map(|i| format!("s{i}")).collect()),
        ("unsorted".into(), vec!["b".into(), "a".into(), "c".into()]),
    ];
    for (name, list) in lists {
        for k in [1usize, 2, 4] {
            let n = list.len();
            let mk = || {
                let mut b = RearCodedListBuilder::new(k);
                for s in &list {
                    b.push(s);
                }
                b.build()
            };
            let d = format!("{name} k={k}");
            for i in ood(n) {
                probe(ctx, "RearCodedList::get", || format!("{d} index={i}"), || mk().get(i));
                probe(ctx, "RearCodedList::get_in_place", || format!("{d} index={i}"), || {
                    let mut v = vec![];
                    mk().get_in_place(i, &mut v);
                    v.len()
                });
                probe(ctx, "RearCodedList::iter_from", || format!("{d} from={i}"), || mk().iter_from(i).count());
                probe(ctx, "RearCodedList::lend_from", || format!("{d} from={i}"), || {
                    let r = mk();
                    let mut l = r.lend_from(i);
                    let mut c = 0;
                    while l.next().is_some() {
                        c += 1;
                    }
                    c
                });
            }
            for p in ["", "a", "zzz", "s", "s9", "\u{10FFFF}", "ab\u{0}"] {
                let g = probe(ctx, "RearCodedList::index_of", || format!("{d} value={p:?}"), || mk().index_of(p));
                if !list.iter().any(|s| s == p) && !p.contains('\0') {
                    expect(ctx, "RearCodedList::index_of", &format!("{d} index_of({p:?})"), g, None);
                }
                probe(ctx, "RearCodedList::contains", || format!("{d} value={p:?}"), || mk().contains(p));
            }
            probe(ctx, "RearCodedList::iter", || format!("{d} polled after None"), || {
                let r = mk();
                let mut it = r.iter();
                while it.next().is_some() {}
                (it.next(), it.len())
            });
        }
    }
    probe(ctx, "RearCodedListBuilder::new", || "k=0".to_string(), || {
        let mut b = RearCodedListBuilder::new(0);
        b.push("a");
        b.build().len()
    });
}

fn functions(ctx: &mut Ctx) {
    let sigs: Vec<[u64; 2]> = vec![[0, 0], [u64::MAX, u64::MAX], [1 << 63, 1], [0, u64::MAX], [u64::MAX, 0], [0x5555_5555_5555_5555, 0xAAAA_AAAA_AAAA_AAAA]];
    for n in [0usize, 1, 2, 10, 1000] {
        macro_rules! vf {
            ($name:expr, $W:ty, $D:ty, $S:ty, $E:ty, $mksig:expr) => {{
                if !(n == 2 && $name.contains("Mwhc")) {
                    let built = probe(ctx, &format!("VBuilder::try_build_func<{}>", $name), || format!("n={n}"), || {
                        VBuilder::<$W, $D, $S, $E>::default().expected_num_keys(n).try_build_func(FromIntoIterator::from(0..n), FromIntoIterator::from((0..n).map(|i| (i % 7) as $W)), no_logging![]).unwrap()
                    });
                    if let Some(f) = built {
                        for key in [n, n + 1, usize::MAX, 1 << 40] {
                            probe(ctx, &format!("VFunc::get<{}>", $name), || format!("n={n} absent key={key}"), || f.get(key));
                        }
                        for s in &sigs {
                            let sig: $S = $mksig(*s);
                            probe(ctx, &format!("VFunc::get_by_sig<{}>", $name), || format!("n={n} sig={s:x?}"), || f.get_by_sig(sig));
                        }
                    }
                }
            }};
        }
        vf!("BitFieldVec<usize>,[u64;2],FuseLge3Shards", usize, BitFieldVec<usize>, [u64; 2], FuseLge3Shards, |s: [u64; 2]| s);
        vf!("Box<[u8]>,[u64;2],FuseLge3Shards", u8, Box<[u8]>, [u64; 2], FuseLge3Shards, |s: [u64; 2]| s);
        vf!("BitFieldVec<usize>,[u64;1],FuseLge3NoShards", usize, BitFieldVec<usize>, [u64; 1], FuseLge3NoShards, |s: [u64; 2]| [s[0] ^ s[1]]);
        vf!("Box<[usize]>,[u64;2],FuseLge3NoShards", usize, Box<[usize]>, [u64; 2], FuseLge3NoShards, |s: [u64; 2]| s);
        vf!("BitFieldVec<usize>,[u64;2],FuseLge3FullSigs", usize, BitFieldVec<usize>, [u64; 2], FuseLge3FullSigs, |s: [u64; 2]| s);
        vf!("Box<[usize]>,[u64;2],Mwhc3Shards", usize, Box<[usize]>, [u64; 2], Mwhc3Shards, |s: [u64; 2]| s);
        vf!("BitFieldVec<usize>,[u64;2],Mwhc3NoShards", usize, BitFieldVec<usize>, [u64; 2], Mwhc3NoShards, |s: [u64; 2]| s);
        // filters
        let built = probe(ctx, "VBuilder::try_build_filter<BitFieldVec<usize>>", || format!("n={n}"), || {
            VBuilder::<usize, BitFieldVec<usize>>::default().expected_num_keys(n).try_build_filter(FromIntoIterator::from(0..n), 7, no_logging![]).unwrap()
        });
        if let Some(f) = built {
            for key in [n, n + 1, usize::MAX] {
                probe(ctx, "VFilter::contains", || format!("n={n} absent key={key}"), || f.contains(key));
                probe(ctx, "VFilter::index", || format!("n={n} absent key={key}"), || f[key]);
            }
            for s in &sigs {
                probe(ctx, "VFilter::contains_by_sig", || format!("n={n} sig={s:x?}"), || f.contains_by_sig(*s));
            }
        }
        let built = probe(ctx, "VBuilder::try_build_filter<Box<[u8]>,Mwhc3NoShards>", || format!("n={n}"), || {
            if n == 2 {
                panic!("known non-terminating build");
            }
            VBuilder::<u8, Box<[u8]>, [u64; 2], Mwhc3NoShards>::default().expected_num_keys(n).try_build_filter(FromIntoIterator::from(0..n), no_logging![]).unwrap()
        });
        if let Some(f) = built {
            for s in &sigs {
                probe(ctx, "VFilter<Mwhc3NoShards>::contains_by_sig", || format!("n={n} sig={s:x?}"), || f.contains_by_sig(*s));
            }
        }
    }
}

fn misc(ctx: &mut Ctx) {
    use sux::utils::mod2_sys::*;
    for nv in [0usize, 1, 3] {
        probe(ctx, "Modulo2System::check", || format!("num_vars={nv} with a solution vector that is too short"), || {
            let mut s = Modulo2System::<usize>::new(nv + 1);
            s.push(unsafe { Modulo2Equation::from_parts(vec![nv as u32], 1) });
            s.check(&vec![0usize; nv])
        });
        probe(ctx, "Modulo2System::gaussian_elimination", || format!("empty system num_vars={nv}"), || Modulo2System::<usize>::new(nv).gaussian_elimination().is_ok());
        probe(ctx, "Modulo2System::lazy_gaussian_elimination", || format!("empty system num_vars={nv}"), || Modulo2System::<usize>::new(nv).lazy_gaussian_elimination().is_ok());
    }
    use sux::utils::*;
    for (b, m, s) in [(0u32, 0u32, 1u32), (2, 1, 3), (0, 3, 4)] {
        probe(ctx, "SigStore::into_shard_store", || format!("bucket_bits={b} max_shard_bits={m} shard_bits={s} (> max)"), || {
            let mut st = new_online::<[u64; 2], u64>(b, m, None).unwrap();
            st.try_push(SigVal { sig: [u64::MAX, 1], val: 1 }).unwrap();
            st.into_shard_store(s).map(|mut x| x.iter().count()).unwrap_or(0)
        });
    }
}

fn slice_seq_and_fair_chunks(ctx: &mut Ctx) {
    use sux::dict::SliceSeq;
    use sux::utils::FairChunks;
    for len in [0usize, 1, 5] {
        let v: Vec<usize> = (0..len).map(|i| i * 3).collect();
        for i in ood(len) {
            probe(ctx, "SliceSeq::get", || format!("len={len} index={i}"), || SliceSeq::new(v.clone()).get(i));
            probe(ctx, "SliceSeq::into_iter_from", || format!("len={len} from={i}"), || (&SliceSeq::new(v.clone())).into_iter_from(i).count());
        }
    }
    // FairChunks over cumulative weight functions stored in an Elias-Fano list
    let cwfs: Vec<Vec<usize>> = vec![vec![], vec![0], vec![0, 0], vec![0, 5], vec![0, 1, 1, 1, 7, 7, 30], (0..50).map(|i| i * i).collect()];
    for cwf in cwfs {
        let max = cwf.last().copied().unwrap_or(0);
        for target in [0usize, 1, 2, max.saturating_sub(1), max, max + 1, usize::MAX / 2, usize::MAX] {
            probe(ctx, "FairChunks::new+iterate", || format!("cwf={:?} target_weight={target}", &cwf[..cwf.len().min(8)]), || {
                let mut b = EliasFanoBuilder::new(cwf.len(), max);
                for &x in &cwf {
                    b.push(x);
                }
                let ef = b.build_with_seq_and_dict();
                let chunks: Vec<_> = FairChunks::new(target, &ef).take(200).collect();
                // the chunks tile 0..num_weights in order
                let mut pos = 0;
                for c in &chunks {
                    assert!(c.start == pos && c.end >= c.start && c.end <= cwf.len().saturating_sub(1), "chunks {chunks:?} do not tile 0..{}", cwf.len().saturating_sub(1));
                    pos = c.end;
                }
                chunks.len()
            });
        }
    }
}

fn main() {
    let mut ctx = Ctx::from_args();
    start_watchdog(120);
    bit_vectors(&mut ctx);
    bit_field_vectors!(&mut ctx, u8, &[0usize, 1, 3, 8]);
    bit_field_vectors!(&mut ctx, u16, &[5usize, 16]);
    bit_field_vectors!(&mut ctx, usize, &[0usize, 1, 7, 33, 63, 64]);
    bit_field_vectors!(&mut ctx, u128, &[65usize, 128]);
    atomic_bit_field_vectors!(&mut ctx, u8, &[0usize, 3, 8]);
    atomic_bit_field_vectors!(&mut ctx, usize, &[0usize, 13, 64]);
    slices(&mut ctx);
    growth_with_slack(&mut ctx);
    elias_fano(&mut ctx);
    elias_fano_grid(&mut ctx);
    rear_coded(&mut ctx);
    functions(&mut ctx);
    misc(&mut ctx);
    slice_seq_and_fair_chunks(&mut ctx);
    ctx.finish();
}

//! C10 — bulk operations equal their element-by-element definitions:
//! copy (all relative alignments, exhaustively for small words), the callback
//! discipline of apply_in_place, try_chunks_mut views, get_unaligned, and the
//! parallel variants on vectors long enough to be split by rayon.
use std::fmt::Debug;
use std::sync::atomic::Ordering;
use sux::prelude::*;
use sux::traits::bit_field_slice::*;
use vh::rt::*;

trait WX: Word + Debug + Send + Sync + 'static {
    const NAME: &'static str;
    fn from_u128(x: u128) -> Self;
}
macro_rules! wx {
    ($($t:ty),*) => {$(impl WX for $t { const NAME: &'static str = stringify!($t); fn from_u128(x: u128) -> Self { x as $t } })*};
}
wx!(u8, u16, u32, u64, usize, u128);

fn mask<W: WX>(w: usize) -> W {
    if w == 0 {
        W::ZERO
    } else {
        W::MAX >> (W::BITS - w)
    }
}

fn pattern<W: WX>(w: usize, n: usize, salt: u64) -> Vec<W> {
    let m = mask::<W>(w);
    (0..n).map(|i| W::from_u128(((mix(i as u64 * 2 + salt) as u128) << 64) | mix(i as u64 * 2 + 1 + salt) as u128) & m).collect()
}

fn filled<W: WX>(w: usize, vals: &[W], spare: usize, dirty: bool) -> BitFieldVec<W> {
    let mut b = BitFieldVec::<W>::new(w, vals.len());
    for (i, &v) in vals.iter().enumerate() {
        b.set(i, v);
    }
    let (mut ws, bw, l) = b.into_raw_parts();
    let bits = l * bw;
    if dirty && bits % W::BITS != 0 {
        let last = bits / W::BITS;
        ws[last] |= W::MAX << (bits % W::BITS);
    }
    for _ in 0..spare {
        ws.push(if dirty { W::MAX } else { W::ZERO });
    }
    unsafe { BitFieldVec::from_raw_parts(ws, bw, l) }
}

/// Checks raw words outside the element range [a, b) are unchanged.
fn outside_unchanged<W: WX>(before: &[W], after: &[W], w: usize, a: usize, b: usize) -> Option<String> {
    if before.len() != after.len() {
        return Some(format!("backend length changed {} -> {}", before.len(), after.len()));
    }
    let (a, b) = (a * w, b * w);
    for k in 0..before.len() {
        let lo = k * W::BITS;
        let mut allowed = W::ZERO;
        if a < lo + W::BITS && b > lo {
            let x = a.max(lo) - lo;
            let y = b.min(lo + W::BITS) - lo;
            allowed = if y - x == W::BITS { W::MAX } else { ((W::ONE << (y - x)) - W::ONE) << x };
        }
        if (before[k] ^ after[k]) & !allowed != W::ZERO {
            return Some(format!("word {k}: {:?} -> {:?} (allowed mask {:?})", before[k], after[k], allowed));
        }
    }
    None
}

fn copy_branch<W: WX>(w: usize, from: usize, to: usize, len: usize) -> &'static str {
    if len == 0 || w == 0 {
        return "branch-empty";
    }
    let bit_len = len * w;
    let (sp, dp) = (from * w, to * w);
    let (sf, sl) = (sp / W::BITS, (sp + bit_len - 1) / W::BITS);
    let (df, dl) = (dp / W::BITS, (dp + bit_len - 1) / W::BITS);
    if sf == sl && df == dl {
        "branch1-single-single"
    } else if sf == sl {
        "branch2-single-multi"
    } else if df == dl {
        "branch3-multi-single"
    } else if sp % W::BITS == dp % W::BITS {
        "branch4-aligned"
    } else if sp % W::BITS < dp % W::BITS {
        "branch5-src<dst"
    } else {
        "branch6-src>dst"
    }
}

fn copy_cases<W: WX>(ctx: &mut Ctx, widths: &[usize], exhaustive: bool) {
    for &w in widths {
        let n = if w == 0 { 5 } else { (3 * W::BITS).div_ceil(w) + 2 };
        let sv = pattern::<W>(w, n, 11);
        let dv = pattern::<W>(w, n + 1, 23);
        // triples
        let mut triples: Vec<(usize, usize, usize)> = vec![];
        if exhaustive {
            for from in 0..n {
                for to in 0..=n {
                    for len in 0..=n + 1 {
                        triples.push((from, to, len));
                    }
                }
            }
        } else {
            let per = if w == 0 { 2 } else { W::BITS / w };
            let lim = (2 * per + 1).min(n - 1);
            let mut lens: Vec<usize> = vec![0, 1, 2, per.saturating_sub(1), per, per + 1, (2 * per).saturating_sub(1), 2 * per, 2 * per + 1, n, n + 1];
            lens.sort();
            lens.dedup();
            for from in 0..=lim {
                for to in 0..=lim {
                    for &len in &lens {
                        triples.push((from, to, len));
                    }
                }
            }
        }
        // lengths close to usize::MAX ("everything that fits"): the clipping must not overflow, whatever the offsets
        let froms: Vec<usize> = triples.iter().map(|t| t.0).collect::<std::collections::BTreeSet<_>>().into_iter().collect();
        for &from in &froms {
            for to in [0usize, 1, n / 2, n, n + 1] {
                for len in [usize::MAX, usize::MAX - 1, usize::MAX - from, usize::MAX - to, (usize::MAX - to).wrapping_add(1), usize::MAX / 2 + 1] {
                    if to <= n + 1 {
                        triples.push((from, to, len));
                    }
                }
            }
        }
        for backend in 0..3 {
            // one case per (W, width, backend, from): inner loop over (to, len)
            let mut by_from: std::collections::BTreeMap<usize, Vec<(usize, usize)>> = Default::default();
            for &(f, t, l) in &triples {
                by_from.entry(f).or_default().push((t, l));
            }
            for (from, tl) in by_from {
                if !ctx.case(|| format!("BitFieldVec::copy W={} width={w} backend={} from={from} ({} (to,len) pairs)", W::NAME, ["Vec", "Box", "&mut[W]+dirty spare"][backend], tl.len())) {
                    continue;
                }
                ctx.nontrivial();
                for (to, len) in tl {
                    ctx.sub_evaluations += 1;
                    let src = filled::<W>(w, &sv, 0, false);
                    let dst0 = filled::<W>(w, &dv, if backend == 2 { 1 } else { 0 }, backend == 2);
                    let before: Vec<W> = dst0.as_slice().to_vec();
                    let r = guard(|| {
                        let mut dst = dst0;
                        match backend {
                            0 => {
                                src.copy(from, &mut dst, to, len);
                                dst
                            }
                            1 => {
                                let sb: BitFieldVec<W, Box<[W]>> = src.clone().into();
                                let mut db: BitFieldVec<W, Box<[W]>> = dst.into();
                                sb.copy(from, &mut db, to, len);
                                db.into()
                            }
                            _ => {
                                let (sw, _, sl) = src.clone().into_raw_parts();
                                let (mut dw, bw, dl) = dst.into_raw_parts();
                                {
                                    let mut s2 = sw.clone();
                                    let ss = unsafe { BitFieldVec::<W, &mut [W]>::from_raw_parts(s2.as_mut_slice(), bw, sl) };
                                    let mut ds = unsafe { BitFieldVec::<W, &mut [W]>::from_raw_parts(dw.as_mut_slice(), bw, dl) };
                                    ss.copy(from, &mut ds, to, len);
                                }
                                unsafe { BitFieldVec::from_raw_parts(dw, bw, dl) }
                            }
                        }
                    });
                    let br = copy_branch::<W>(w, from, to, len.min(n - from).min((n + 1).saturating_sub(to)));
                    ctx.count(br);
                    match r {
                        Outcome::Panic(m) => ctx.violation("C10|BitFieldVec::copy|panic", format!("copy(from={from}, to={to}, len={len}) W={} width={w} n_src={n} n_dst={}: {m}", W::NAME, n + 1)),
                        Outcome::Ret(dst) => {
                            let eff = len.min(n - from).min(n + 1 - to);
                            let mut exp = dv.clone();
                            for i in 0..eff {
                                exp[to + i] = sv[from + i];
                            }
                            let got: Vec<W> = (0..n + 1).map(|i| dst.get(i)).collect();
                            if got != exp {
                                let bad = (0..n + 1).find(|&i| got[i] != exp[i]).unwrap();
                                ctx.violation(
                                    &format!("C10|BitFieldVec::copy|wrong-elements-{br}"),
                                    format!("copy(from={from}, to={to}, len={len}) W={} width={w}: dst[{bad}] = {:?} expected {:?}", W::NAME, got[bad], exp[bad]),
                                );
                            } else if let Some(e) = outside_unchanged(&before, dst.as_slice(), w, to, to + eff) {
                                ctx.violation("C10|BitFieldVec::copy|writes-outside-range", format!("copy(from={from}, to={to}, len={len}) W={} width={w}: {e}", W::NAME));
                            }
                        }
                    }
                }
            }
        }
    }
}

macro_rules! slice_copy_cases {
    ($ctx:expr, $W:ty) => {{
        type W = $W;
        let ctx: &mut Ctx = $ctx;
        (|| {
    // the impl of BitFieldSliceMut for plain slices/vectors of W
    if !ctx.case(|| format!("[W]::copy W={} all (from,to,len) over 6-element vectors", W::NAME)) {
        return;
    }
    ctx.nontrivial();
    let sv = pattern::<W>(W::BITS as usize, 6, 3);
    let dv = pattern::<W>(W::BITS as usize, 7, 5);
    for from in 0..6 {
        for to in 0..=7 {
            for len in 0..=8 {
                ctx.sub_evaluations += 1;
                let mut d = dv.clone();
                let r = guard(|| BitFieldSliceMut::copy(&sv, from, &mut d, to, len));
                if r.is_panic() {
                    ctx.violation("C10|[W]::copy|panic", format!("copy(from={from}, to={to}, len={len})"));
                    continue;
                }
                let eff = len.min(6 - from).min(7 - to);
                let mut exp = dv.clone();
                for i in 0..eff {
                    exp[to + i] = sv[from + i];
                }
                if d != exp {
                    ctx.violation("C10|[W]::copy|wrong-elements", format!("copy(from={from}, to={to}, len={len})"));
                }
            }
        }
    }
        })();
    }};
}

fn apply_cases<W: WX>(ctx: &mut Ctx, widths: &[usize]) {
    for &w in widths {
        let k = if w == 0 { 3 } else { W::BITS.div_ceil(w) };
        for n in [0usize, 1, k.saturating_sub(1), k, k + 1, 2 * k + 1] {
            for backend in 0..4 {
                if !ctx.case(|| format!("BitFieldVec::apply_in_place W={} width={w} len={n} backend={}", W::NAME, ["new", "new_unaligned", "dirty spare word", "Box"][backend])) {
                    continue;
                }
                ctx.nontrivial();
                let vals = pattern::<W>(w, n, 31);
                let m = mask::<W>(w);
                let mk = || -> BitFieldVec<W> {
                    match backend {
                        1 => {
                            let mut b = BitFieldVec::<W>::new_unaligned(w, n);
                            for (i, &v) in vals.iter().enumerate() {
                                b.set(i, v);
                            }
                            b
                        }
                        2 => filled::<W>(w, &vals, 1, true),
                        _ => filled::<W>(w, &vals, 0, false),
                    }
                };
                // permutation-like function: multiply by odd constant, masked
                let f = |x: W| (x.wrapping_mul(W::from_u128(0x9E37_79B9_7F4A_7C15_9E37_79B9_7F4A_7C15 | 1)).wrapping_add(W::ONE)) & m;
                let r = guard(|| {
                    let mut b = mk();
                    let before = b.as_slice().to_vec();
                    let mut log = vec![];
                    if backend == 3 {
                        let mut bb: BitFieldVec<W, Box<[W]>> = b.into();
                        bb.apply_in_place(|x| {
                            log.push(x);
                            f(x)
                        });
                        b = bb.into();
                    } else {
                        b.apply_in_place(|x| {
                            log.push(x);
                            f(x)
                        });
                    }
                    (before, b, log)
                });
                match r {
                    Outcome::Panic(msg) => ctx.violation("C10|BitFieldVec::apply_in_place|panic", format!("W={} width={w} len={n}: {msg}", W::NAME)),
                    Outcome::Ret((before, b, log)) => {
                        if log != vals {
                            ctx.violation("C10|BitFieldVec::apply_in_place|callback-sequence", format!("W={} width={w} len={n}: f called {} times, args {:?}..", W::NAME, log.len(), &log[..log.len().min(4)]));
                        }
                        let got: Vec<W> = (0..n).map(|i| b.get(i)).collect();
                        let exp: Vec<W> = vals.iter().map(|&x| f(x)).collect();
                        if got != exp || b.len() != n {
                            ctx.violation("C10|BitFieldVec::apply_in_place|wrong-elements", format!("W={} width={w} len={n}", W::NAME));
                        }
                        if let Some(e) = outside_unchanged(&before, b.as_slice(), w, 0, n) {
                            ctx.violation("C10|BitFieldVec::apply_in_place|writes-outside-range", format!("W={} width={w} len={n}: {e}", W::NAME));
                        }
                    }
                }
                // cumulative function (order matters) through the unchecked variant
                let r = guard(|| {
                    let mut b = mk();
                    let mut acc = W::ZERO;
                    unsafe {
                        b.apply_in_place_unchecked(|x| {
                            acc = acc.wrapping_add(x) & m;
                            acc
                        })
                    };
                    (0..n).map(|i| b.get(i)).collect::<Vec<W>>()
                });
                let mut acc = W::ZERO;
                let exp: Vec<W> = vals
                    .iter()
                    .map(|&x| {
                        acc = acc.wrapping_add(x) & m;
                        acc
                    })
                    .collect();
                match r {
                    Outcome::Ret(got) if got == exp => {}
                    Outcome::Ret(_) => ctx.violation("C10|BitFieldVec::apply_in_place_unchecked|wrong-elements", format!("W={} width={w} len={n}: prefix sums differ (order of application)", W::NAME)),
                    Outcome::Panic(msg) => ctx.violation("C10|BitFieldVec::apply_in_place_unchecked|panic", format!("W={} width={w} len={n}: {msg}", W::NAME)),
                }
                // a too-wide result must be rejected by a panic
                if w < W::BITS && n > 0 {
                    let r = guard(|| {
                        let mut b = mk();
                        b.apply_in_place(|_| m.wrapping_add(W::ONE));
                    });
                    if !r.is_panic() {
                        ctx.violation("C10|BitFieldVec::apply_in_place|too-wide-result-accepted", format!("W={} width={w} len={n}", W::NAME));
                    }
                }
            }
        }
    }
}

macro_rules! default_apply_case {
    ($ctx:expr, $W:ty) => {{
        type W = $W;
        let ctx: &mut Ctx = $ctx;
        if ctx.case(|| format!("Vec<W>::apply_in_place W={} (trait default)", W::NAME)) {
            let vals = pattern::<W>(W::BITS as usize, 5, 77);
            let mut v = vals.clone();
            let mut log: Vec<W> = vec![];
            let r = guard(|| {
                BitFieldSliceMut::apply_in_place(&mut v, |x| {
                    log.push(x);
                    !x
                })
            });
            if r.is_panic() || log != vals || v != vals.iter().map(|&x| !x).collect::<Vec<W>>() {
                ctx.violation("C10|Vec<W>::apply_in_place|wrong-elements", format!("W={}", W::NAME));
            }
        }
    }};
}

fn chunks_cases<W: WX>(ctx: &mut Ctx, widths: &[usize]) {
    for &w in widths {
        let k = if w == 0 { 3 } else { W::BITS.div_ceil(w) };
        for n in 0..=3 * k {
            if !ctx.case(|| format!("BitFieldVec::try_chunks_mut W={} width={w} len={n} all chunk sizes 1..={}", W::NAME, n + 1)) {
                continue;
            }
            ctx.nontrivial();
            let vals = pattern::<W>(w, n, 41);
            for cs in 1..=n + 1 {
                ctx.sub_evaluations += 1;
                let dirty = cs % 2 == 0;
                let mut b = filled::<W>(w, &vals, usize::from(dirty), dirty);
                let before: Vec<W> = b.as_slice().to_vec();
                let documented_ok = n <= cs || (cs * w) % W::BITS == 0;
                let r = guard(|| {
                    let mut reads = vec![];
                    let ok = match b.try_chunks_mut(cs) {
                        Err(()) => false,
                        Ok(chunks) => {
                            let mut base = 0;
                            for mut c in chunks {
                                let l = c.len();
                                // every view holds min(chunk size, remaining) elements: in particular no empty views
                                if l != cs.min(n - base.min(n)) || l == 0 {
                                    reads.push(W::MAX);
                                    reads.push(W::MAX);
                                }
                                for i in 0..l {
                                    reads.push(c.get(i));
                                    // write the complement, then restore half of them
                                    c.set(i, !vals[base + i] & mask::<W>(w));
                                }
                                base += l;
                            }
                            true
                        }
                    };
                    (ok, reads)
                });
                match r {
                    Outcome::Panic(m) => ctx.violation(if w == 0 { "C10|BitFieldVec::try_chunks_mut|panic-bit-width-0" } else { "C10|BitFieldVec::try_chunks_mut|panic" }, format!("W={} width={w} len={n} chunk_size={cs}: {m}", W::NAME)),
                    Outcome::Ret((ok, reads)) => {
                        if ok != documented_ok {
                            ctx.violation("C10|BitFieldVec::try_chunks_mut|wrong-ok-err", format!("W={} width={w} len={n} chunk_size={cs}: returned {} but documentation says {}", W::NAME, if ok { "Ok" } else { "Err" }, if documented_ok { "Ok" } else { "Err" }));
                        } else if ok {
                            let got: Vec<W> = (0..n).map(|i| b.get(i)).collect();
                            let exp: Vec<W> = vals.iter().map(|&x| !x & mask::<W>(w)).collect();
                            if reads != vals || got != exp {
                                ctx.violation("C10|BitFieldVec::try_chunks_mut|wrong-elements", format!("W={} width={w} len={n} chunk_size={cs} (spare dirty word: {dirty}): chunk views do not address the corresponding elements, or their number / lengths are not ceil(len / chunk_size) views of min(chunk_size, remaining) elements (read {} values)", W::NAME, reads.len()));
                            } else if let Some(e) = outside_unchanged(&before, b.as_slice(), w, 0, n) {
                                ctx.violation("C10|BitFieldVec::try_chunks_mut|writes-outside-range", format!("W={} width={w} len={n} chunk_size={cs}: {e}", W::NAME));
                            }
                        }
                    }
                }
            }
        }
    }
}

fn unaligned_cases<W: WX>(ctx: &mut Ctx) {
    for w in 0..=W::BITS {
        if !ctx.case(|| format!("BitFieldVec::get_unaligned W={} width={w}", W::NAME)) {
            continue;
        }
        ctx.nontrivial();
        let admissible = w <= W::BITS - 8 + 2 || w == W::BITS - 8 + 4 || w == W::BITS;
        let k = if w == 0 { 3 } else { W::BITS.div_ceil(w) };
        for n in [1usize, k, k + 1, 3 * k + 2] {
            let vals = pattern::<W>(w, n, 51);
            let mut b = BitFieldVec::<W>::new_unaligned(w, n);
            for (i, &v) in vals.iter().enumerate() {
                b.set(i, v);
            }
            let nopad = filled::<W>(w, &vals, 0, false);
            for i in 0..n {
                ctx.sub_evaluations += 1;
                match guard(|| b.get_unaligned(i)) {
                    Outcome::Ret(x) => {
                        if !admissible {
                            ctx.violation("C10|BitFieldVec::get_unaligned|inadmissible-width-accepted", format!("W={} width={w}", W::NAME));
                        } else if x != vals[i] {
                            ctx.violation("C10|BitFieldVec::get_unaligned|wrong-value", format!("W={} width={w} len={n}: get_unaligned({i}) = {x:?} expected {:?}", W::NAME, vals[i]));
                        }
                    }
                    Outcome::Panic(m) => {
                        if admissible {
                            ctx.violation("C10|BitFieldVec::get_unaligned|panic", format!("W={} width={w} len={n} with padding word: get_unaligned({i}) panicked: {m}", W::NAME));
                        }
                    }
                }
                // without the padding word: either the correct value or a panic
                if let Outcome::Ret(x) = guard(|| nopad.get_unaligned(i)) {
                    if admissible && x != vals[i] {
                        ctx.violation("C10|BitFieldVec::get_unaligned|wrong-value", format!("W={} width={w} len={n} (no padding word): get_unaligned({i}) = {x:?} expected {:?}", W::NAME, vals[i]));
                    }
                }
            }
            if !guard(|| b.get_unaligned(n)).is_panic() {
                ctx.violation("C10|BitFieldVec::get_unaligned|out-of-range-not-rejected", format!("W={} width={w} len={n}", W::NAME));
            }
        }
    }
}

fn long_parallel(ctx: &mut Ctx) {
    // vectors long enough for rayon's with_min_len(RAYON_MIN_LEN = 100 000 words) to split
    for (nm, len) in [("2.5 x RAYON_MIN_LEN words + 37 bits", 250_000 * 64 + 37), ("exactly 2 x RAYON_MIN_LEN words", 200_000 * 64)] {
        if !ctx.case(|| format!("BitVec::par_* len={len} ({nm})")) {
            continue;
        }
        ctx.nontrivial();
        let r = guard(|| {
            let mut errs: Vec<(&str, String)> = vec![];
            let bits = |i: usize| mix(i as u64 / 64) >> (i % 64) & 1 == 1;
            let mut a: BitVec = (0..len).map(bits).collect();
            // dirty tail + spare word
            let (mut w, l) = a.into_raw_parts();
            if l % 64 != 0 {
                let last = w.len() - 1;
                w[last] |= usize::MAX << (l % 64);
            }
            w.push(usize::MAX);
            let tail_before = (w[l / 64.min(w.len() - 1)], *w.last().unwrap());
            a = unsafe { BitVec::from_raw_parts(w, l) };
            let ones = (0..len).filter(|&i| bits(i)).count();
            if a.par_count_ones() != ones || a.count_ones() != ones {
                errs.push(("BitVec::par_count_ones", format!("{} / {} expected {ones}", a.par_count_ones(), a.count_ones())));
            }
            let mut b = a.clone();
            b.par_flip();
            let mut c = a.clone();
            c.flip();
            if b != c || b.count_ones() != len - ones || (0..len).step_by(997).any(|i| b.get(i) == bits(i)) {
                errs.push(("BitVec::par_flip", "differs from flip".into()));
            }
            b.par_fill(true);
            if b.count_ones() != len {
                errs.push(("BitVec::par_fill", "par_fill(true) did not set every bit".into()));
            }
            b.par_reset();
            if b.count_ones() != 0 {
                errs.push(("BitVec::par_reset", "par_reset left ones".into()));
            }
            let (w, _) = b.into_raw_parts();
            if (w[l / 64.min(w.len() - 1)] | if l % 64 != 0 { (1usize << (l % 64)) - 1 } else { 0 }, *w.last().unwrap()) != (tail_before.0 | if l % 64 != 0 { (1usize << (l % 64)) - 1 } else { 0 }, tail_before.1) && l % 64 != 0 {
                errs.push(("BitVec::par_*", "bits beyond len were modified".into()));
            }
            let mut at: AtomicBitVec = a.clone().into();
            if at.par_count_ones() != ones {
                errs.push(("AtomicBitVec::par_count_ones", "wrong".into()));
            }
            at.par_flip(Ordering::Relaxed);
            if at.count_ones() != len - ones {
                errs.push(("AtomicBitVec::par_flip", "wrong".into()));
            }
            at.par_fill(true, Ordering::Relaxed);
            if at.count_ones() != len {
                errs.push(("AtomicBitVec::par_fill", "wrong".into()));
            }
            at.par_reset(Ordering::Relaxed);
            if at.count_ones() != 0 {
                errs.push(("AtomicBitVec::par_reset", "wrong".into()));
            }
            // bit-field vectors: par_reset / par_reset_atomic
            let n = len / 13;
            let mut f = BitFieldVec::<usize>::new(13, n);
            for i in (0..n).step_by(3) {
                f.set(i, i & 0x1FFF);
            }
            let mut g = f.clone();
            g.par_reset();
            if (0..n).step_by(101).any(|i| g.get(i) != 0) || g.len() != n {
                errs.push(("BitFieldVec::par_reset", "left non-zero values".into()));
            }
            let mut h: AtomicBitFieldVec<usize> = f.into();
            h.par_reset_atomic(Ordering::Relaxed);
            if (0..n).step_by(101).any(|i| h.get_atomic(i, Ordering::Relaxed) != 0) {
                errs.push(("AtomicBitFieldVec::par_reset_atomic", "left non-zero values".into()));
            }
            errs
        });
        match r {
            Outcome::Ret(errs) => {
                for (site, what) in errs {
                    ctx.violation(&format!("C10|{site}|wrong-answer"), format!("len={len}: {what}"));
                }
            }
            Outcome::Panic(m) => ctx.violation("C10|BitVec::par_*|panic", m),
        }
    }
}

fn main() {
    let mut ctx = Ctx::from_args();
    start_watchdog(300);
    let t = ctx.thorough();
    let all8: Vec<usize> = (0..=8).collect();
    let all16: Vec<usize> = (0..=16).collect();
    // copy: exhaustive triples for u8 (and u16 in thorough), boundary grid for wide words
    copy_cases::<u8>(&mut ctx, &all8, true);
    if t {
        // thorough: ALL triples for every width of u16, u32 and usize, selected widths of u64 and u128 (width >= 2)
        let all32: Vec<usize> = (0..=32).collect();
        let all64: Vec<usize> = (0..=64).collect();
        copy_cases::<u16>(&mut ctx, &all16, true);
        copy_cases::<u32>(&mut ctx, &all32, true);
        copy_cases::<usize>(&mut ctx, &all64, true);
        copy_cases::<u64>(&mut ctx, &[0, 1, 3, 7, 13, 32, 33, 63, 64], true);
        copy_cases::<u128>(&mut ctx, &[0, 2, 3, 7, 13, 63, 64, 65, 127, 128], true);
        copy_cases::<u128>(&mut ctx, &[1], false);
    } else {
        copy_cases::<u16>(&mut ctx, &[0, 1, 3, 7, 8, 9, 15, 16], false);
        copy_cases::<u32>(&mut ctx, &[0, 1, 3, 7, 13, 16, 17, 31, 32], false);
        copy_cases::<u64>(&mut ctx, &[0, 1, 3, 7, 13, 32, 33, 63, 64], false);
        copy_cases::<usize>(&mut ctx, &[0, 1, 3, 5, 7, 13, 21, 32, 33, 59, 63, 64], false);
        copy_cases::<u128>(&mut ctx, &[0, 1, 3, 7, 13, 64, 65, 127, 128], false);
    }
    slice_copy_cases!(&mut ctx, u8);
    slice_copy_cases!(&mut ctx, usize);
    slice_copy_cases!(&mut ctx, u128);
    default_apply_case!(&mut ctx, u8);
    default_apply_case!(&mut ctx, usize);
    default_apply_case!(&mut ctx, u128);
    apply_cases::<u8>(&mut ctx, &all8);
    apply_cases::<u16>(&mut ctx, if t { &all16 } else { &[0, 1, 5, 8, 11, 16] });
    if t {
        apply_cases::<u32>(&mut ctx, &(0..=32).collect::<Vec<_>>());
        apply_cases::<u64>(&mut ctx, &(0..=64).collect::<Vec<_>>());
        apply_cases::<usize>(&mut ctx, &(0..=64).collect::<Vec<_>>());
        apply_cases::<u128>(&mut ctx, &(0..=128).collect::<Vec<_>>());
        chunks_cases::<u8>(&mut ctx, &all8);
        chunks_cases::<u16>(&mut ctx, &all16);
        chunks_cases::<u32>(&mut ctx, &(0..=32).collect::<Vec<_>>());
        chunks_cases::<usize>(&mut ctx, &(0..=64).collect::<Vec<_>>());
        chunks_cases::<u128>(&mut ctx, &[0, 1, 7, 63, 64, 65, 127, 128]);
    } else {
        apply_cases::<u32>(&mut ctx, &[0, 1, 3, 7, 8, 15, 16, 17, 31, 32]);
        apply_cases::<u64>(&mut ctx, &[0, 1, 2, 3, 5, 7, 8, 13, 31, 32, 33, 59, 61, 62, 63, 64]);
        apply_cases::<usize>(&mut ctx, &[0, 1, 2, 3, 5, 7, 8, 13, 31, 32, 33, 59, 61, 62, 63, 64]);
        apply_cases::<u128>(&mut ctx, &[0, 1, 7, 64, 65, 127, 128]);
        chunks_cases::<u8>(&mut ctx, &all8);
        chunks_cases::<u16>(&mut ctx, &[0, 1, 5, 8, 11, 16]);
        chunks_cases::<usize>(&mut ctx, &[0, 1, 3, 8, 13, 32, 33, 63, 64]);
        chunks_cases::<u128>(&mut ctx, &[0, 1, 7, 64, 65, 128]);
    }
    unaligned_cases::<u8>(&mut ctx);
    unaligned_cases::<u16>(&mut ctx);
    unaligned_cases::<u32>(&mut ctx);
    unaligned_cases::<u64>(&mut ctx);
    unaligned_cases::<usize>(&mut ctx);
    unaligned_cases::<u128>(&mut ctx);
    let _ = t;
    long_parallel(&mut ctx);
    ctx.finish();
}

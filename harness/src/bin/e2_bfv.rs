//! C05 / C14 — BitFieldVec<W> as a Vec of w-bit values: explicit-state BFS over
//! operation histories executed on the real `BitFieldVec` (and its boxed,
//! slice-backed and atomic forms) for every word type and bit width, with the
//! reference model `Vec<W>` observed in every state and the footprint invariant
//! checked on every transition.
//!
//! `--opt prop=C05` (clean seeds) or `--opt prop=C14` (dirty seeds).
use std::fmt::Debug;
use std::hash::Hash;
use std::sync::atomic::Ordering;
use sux::prelude::*;
use sux::traits::bit_field_slice::*;
use sux::traits::{IntoReverseUncheckedIterator, IntoUncheckedIterator, UncheckedIterator};
use vh::bfs::{bfs, Viol};
use vh::rt::*;

trait WX: Word + Hash + Debug + Send + Sync + common_traits::CastableInto<u128> + common_traits::CastableInto<u8> + 'static {
    const NAME: &'static str;
    fn to_u128(self) -> u128;
    fn from_u128(x: u128) -> Self;
    /// set through the atomic form (Vec backend); None when the word has no atomic type
    fn atomic_set(v: BitFieldVec<Self>, i: usize, val: Self, boxed: bool) -> Option<BitFieldVec<Self>>;
    fn atomic_reset(v: BitFieldVec<Self>, par: bool) -> Option<BitFieldVec<Self>>;
    fn atomic_get_all(v: BitFieldVec<Self>) -> Option<Vec<Self>>;
    /// set_atomic on an out-of-range index / too large value must panic; returns (panicked, vector back)
    fn atomic_bad_set(v: BitFieldVec<Self>, i: usize, val: Self) -> Option<(bool, BitFieldVec<Self>)>;
}

macro_rules! wx_atomic {
    ($t:ty, $n:expr) => {
        impl WX for $t {
            const NAME: &'static str = $n;
            fn to_u128(self) -> u128 {
                self as u128
            }
            fn from_u128(x: u128) -> Self {
                x as $t
            }
            fn atomic_set(v: BitFieldVec<Self>, i: usize, val: Self, boxed: bool) -> Option<BitFieldVec<Self>> {
                if boxed {
                    let b: BitFieldVec<Self, Box<[Self]>> = v.into();
                    let a: AtomicBitFieldVec<Self, Box<[<Self as common_traits::IntoAtomic>::AtomicType]>> = b.into();
                    a.set_atomic(i, val, Ordering::Relaxed);
                    let b: BitFieldVec<Self, Box<[Self]>> = a.into();
                    Some(b.into())
                } else {
                    let a: AtomicBitFieldVec<Self> = v.into();
                    a.set_atomic(i, val, Ordering::Relaxed);
                    Some(a.into())
                }
            }
            fn atomic_reset(v: BitFieldVec<Self>, par: bool) -> Option<BitFieldVec<Self>> {
                let mut a: AtomicBitFieldVec<Self> = v.into();
                if par {
                    a.par_reset_atomic(Ordering::Relaxed);
                } else {
                    a.reset_atomic(Ordering::Relaxed);
                }
                Some(a.into())
            }
            fn atomic_get_all(v: BitFieldVec<Self>) -> Option<Vec<Self>> {
                let a: AtomicBitFieldVec<Self> = v.into();
                Some((0..a.len()).map(|i| a.get_atomic(i, Ordering::Relaxed)).collect())
            }
            fn atomic_bad_set(v: BitFieldVec<Self>, i: usize, val: Self) -> Option<(bool, BitFieldVec<Self>)> {
                let a: AtomicBitFieldVec<Self> = v.into();
                let r = guard(|| a.set_atomic(i, val, Ordering::Relaxed));
                Some((r.is_panic(), a.into()))
            }
        }
    };
}
wx_atomic!(u8, "u8");
wx_atomic!(u16, "u16");
wx_atomic!(u32, "u32");
wx_atomic!(u64, "u64");
wx_atomic!(usize, "usize");
impl WX for u128 {
    const NAME: &'static str = "u128";
    fn to_u128(self) -> u128 {
        self
    }
    fn from_u128(x: u128) -> Self {
        x
    }
    fn atomic_set(_: BitFieldVec<Self>, _: usize, _: Self, _: bool) -> Option<BitFieldVec<Self>> {
        None
    }
    fn atomic_reset(_: BitFieldVec<Self>, _: bool) -> Option<BitFieldVec<Self>> {
        None
    }
    fn atomic_get_all(_: BitFieldVec<Self>) -> Option<Vec<Self>> {
        None
    }
    fn atomic_bad_set(_: BitFieldVec<Self>, _: usize, _: Self) -> Option<(bool, BitFieldVec<Self>)> {
        None
    }
}

/// Set while a seed state is observed: the (costlier) iterator-protocol observations run there only.
static PROTO: std::sync::atomic::AtomicBool = std::sync::atomic::AtomicBool::new(false);

#[derive(Clone)]
struct St<W> {
    words: Vec<W>,
    width: usize,
    len: usize,
    /// capacity of the backing Vec: part of the state the code branches on (see e2_bitvec)
    cap: usize,
    model: Vec<W>,
}

#[derive(Clone, Debug)]
enum Op<W> {
    Push(W),
    Pop,
    Set(usize, W),
    Resize(usize, W),
    Clear,
    Extend2(W, W),
    BoxedSet(usize, W),
    SliceMutSet(usize, W),
    AtomicSet(usize, W),
    AtomicBoxSet(usize, W),
    Reset,
    ParReset,
    AtomicReset,
    AtomicParReset,
    ApplyInc,
}

fn mask<W: WX>(w: usize) -> W {
    if w == 0 {
        W::ZERO
    } else {
        W::MAX >> (W::BITS - w)
    }
}

fn real<W: WX>(s: &St<W>) -> BitFieldVec<W> {
    let mut w = Vec::with_capacity(s.cap.max(s.words.len()));
    w.extend_from_slice(&s.words);
    unsafe { BitFieldVec::from_raw_parts(w, s.width, s.len) }
}

/// first index whose element crosses a word boundary (or BITS/w when none does)
fn kcross<W: WX>(w: usize) -> usize {
    if w == 0 {
        return 3;
    }
    for i in 0..=W::BITS {
        if (i * w) % W::BITS + w > W::BITS {
            return i;
        }
    }
    W::BITS / w
}

fn vals<W: WX>(w: usize) -> Vec<W> {
    let m = mask::<W>(w);
    let mut v = vec![W::ZERO];
    if w > 0 {
        v.push(W::ONE);
        v.push(W::ONE << (w - 1));
        v.push(m >> 1);
        v.push(m);
        v.push(W::from_u128(0x5555_5555_5555_5555_5555_5555_5555_5555u128) & m);
    }
    let mut seen = vec![];
    for x in v {
        if !seen.contains(&x) {
            seen.push(x);
        }
    }
    seen
}

fn idxs<W: WX>(w: usize, len: usize) -> Vec<usize> {
    let k = kcross::<W>(w);
    let mut v: Vec<usize> = [0usize, 1, k.wrapping_sub(1), k, k + 1, len.wrapping_sub(1)].into_iter().filter(|&i| i < len).collect();
    v.sort();
    v.dedup();
    v
}

fn ops<W: WX>(s: &St<W>) -> Vec<Op<W>> {
    let w = s.width;
    let k = kcross::<W>(w);
    let vs = vals::<W>(w);
    let m = mask::<W>(w);
    let few: Vec<W> = {
        let mut f = vec![W::ZERO];
        if !f.contains(&m) {
            f.push(m);
        }
        let alt = W::from_u128(0x5555_5555_5555_5555_5555_5555_5555_5555u128) & m;
        if !f.contains(&alt) {
            f.push(alt);
        }
        f
    };
    let mut o = vec![];
    for &v in &vs {
        o.push(Op::Push(v));
    }
    o.push(Op::Pop);
    let ii = idxs::<W>(w, s.len);
    for &i in &ii {
        for &v in &vs {
            o.push(Op::Set(i, v));
        }
    }
    for n in [0usize, 1, k.saturating_sub(1), k, k + 1, 2 * k + 1] {
        for &v in &few {
            o.push(Op::Resize(n, v));
        }
    }
    o.push(Op::Clear);
    o.push(Op::Extend2(few[few.len() - 1], few[0]));
    if let (Some(&a), Some(&b)) = (ii.first(), ii.last()) {
        let mut ab = vec![a];
        if b != a {
            ab.push(b);
        }
        for i in ab {
            for &v in &few {
                o.push(Op::BoxedSet(i, v));
                o.push(Op::SliceMutSet(i, v));
                if w < W::BITS {
                    // width == W::BITS is excluded for the atomic form by a debug assertion; see C05 notes
                }
                o.push(Op::AtomicSet(i, v));
            }
            o.push(Op::AtomicBoxSet(i, few[few.len() - 1]));
        }
    }
    o.extend([Op::Reset, Op::ParReset, Op::AtomicReset, Op::AtomicParReset, Op::ApplyInc]);
    o
}

fn footprint<W: WX>(op: &Op<W>, len: usize) -> (usize, usize) {
    match *op {
        Op::Push(_) => (len, len + 1),
        Op::Pop => (len.saturating_sub(1), len),
        Op::Set(i, _) | Op::BoxedSet(i, _) | Op::SliceMutSet(i, _) | Op::AtomicSet(i, _) | Op::AtomicBoxSet(i, _) => (i, i + 1),
        Op::Resize(n, _) => (len.min(n), len.max(n)),
        Op::Clear => (0, len),
        Op::Extend2(..) => (len, len + 2),
        Op::Reset | Op::ParReset | Op::AtomicReset | Op::AtomicParReset | Op::ApplyInc => (0, len),
    }
}

fn site<W>(op: &Op<W>) -> &'static str {
    match op {
        Op::Push(_) => "BitFieldVec::push",
        Op::Pop => "BitFieldVec::pop",
        Op::Set(..) => "BitFieldVec::set",
        Op::Resize(..) => "BitFieldVec::resize",
        Op::Clear => "BitFieldVec::clear",
        Op::Extend2(..) => "BitFieldVec::extend",
        Op::BoxedSet(..) => "BitFieldVec<Box>::set",
        Op::SliceMutSet(..) => "BitFieldVec<&mut [W]>::set",
        Op::AtomicSet(..) => "AtomicBitFieldVec::set_atomic",
        Op::AtomicBoxSet(..) => "AtomicBitFieldVec<Box>::set_atomic",
        Op::Reset => "BitFieldVec::reset",
        Op::ParReset => "BitFieldVec::par_reset",
        Op::AtomicReset => "AtomicBitFieldVec::reset_atomic",
        Op::AtomicParReset => "AtomicBitFieldVec::par_reset_atomic",
        Op::ApplyInc => "BitFieldVec::apply_in_place",
    }
}

fn apply_model<W: WX>(m: &mut Vec<W>, width: usize, op: &Op<W>) -> Option<W> {
    match *op {
        Op::Push(v) => m.push(v),
        Op::Pop => return m.pop(),
        Op::Set(i, v) | Op::BoxedSet(i, v) | Op::SliceMutSet(i, v) | Op::AtomicSet(i, v) | Op::AtomicBoxSet(i, v) => m[i] = v,
        Op::Resize(n, v) => m.resize(n, v),
        Op::Clear => m.clear(),
        Op::Extend2(a, b) => m.extend([a, b]),
        Op::Reset | Op::ParReset | Op::AtomicReset | Op::AtomicParReset => m.iter_mut().for_each(|x| *x = W::ZERO),
        Op::ApplyInc => {
            let mk = mask::<W>(width);
            m.iter_mut().for_each(|x| *x = x.wrapping_add(W::ONE) & mk)
        }
    }
    None
}

/// Returns (words, len, return value, number of calls of f and argument log for apply_in_place)
fn apply_real<W: WX>(s: &St<W>, op: &Op<W>) -> Option<(Vec<W>, usize, Option<W>, Option<Vec<W>>)> {
    let mut b = real(s);
    let mut ret = None;
    let mut log = None;
    match *op {
        Op::Push(v) => b.push(v),
        Op::Pop => ret = b.pop(),
        Op::Set(i, v) => b.set(i, v),
        Op::Resize(n, v) => b.resize(n, v),
        Op::Clear => b.clear(),
        Op::Extend2(x, y) => b.extend([x, y]),
        Op::BoxedSet(i, v) => {
            let mut bb: BitFieldVec<W, Box<[W]>> = b.into();
            bb.set(i, v);
            b = bb.into();
        }
        Op::SliceMutSet(i, v) => {
            let (mut w, bw, l) = b.into_raw_parts();
            {
                let mut sl = unsafe { BitFieldVec::<W, &mut [W]>::from_raw_parts(w.as_mut_slice(), bw, l) };
                sl.set(i, v);
            }
            b = unsafe { BitFieldVec::from_raw_parts(w, bw, l) };
        }
        Op::AtomicSet(i, v) => b = W::atomic_set(b, i, v, false)?,
        Op::AtomicBoxSet(i, v) => b = W::atomic_set(b, i, v, true)?,
        Op::Reset => b.reset(),
        Op::ParReset => b.par_reset(),
        Op::AtomicReset => b = W::atomic_reset(b, false)?,
        Op::AtomicParReset => b = W::atomic_reset(b, true)?,
        Op::ApplyInc => {
            let mk = mask::<W>(s.width);
            let mut args = vec![];
            b.apply_in_place(|x| {
                args.push(x);
                x.wrapping_add(W::ONE) & mk
            });
            log = Some(args);
        }
    }
    let (w, _, l) = b.into_raw_parts();
    Some((w, l, ret, log))
}

fn observe<W: WX>(prop: &str, s: &St<W>, viol: &mut Vec<Viol>) {
    let m = &s.model;
    let n = m.len();
    let w = s.width;
    let r = guard(|| {
        let b = real(s);
        let mut out: Vec<(&'static str, &'static str, String)> = vec![];
        macro_rules! bad {
            ($site:expr, $($a:tt)*) => { out.push(($site, "wrong-observation", format!($($a)*))) };
        }
        if b.len() != n {
            bad!("BitFieldVec::len", "len {} != {}", b.len(), n);
            return out;
        }
        if b.bit_width() != w || BitFieldSliceCore::<W>::bit_width(&b) != w {
            bad!("BitFieldVec::bit_width", "bit_width {} != {}", b.bit_width(), w);
        }
        if b.mask() != mask::<W>(w) {
            bad!("BitFieldVec::mask", "mask wrong");
        }
        for i in 0..n {
            let g = b.get(i);
            if g != m[i] {
                bad!("BitFieldVec::get", "get({i}) = {:?} expected {:?}", g, m[i]);
                break;
            }
        }
        let it: Vec<W> = b.iter().collect();
        if &it != m {
            bad!("BitFieldVec::iter", "iter() differs: {:?} vs {:?}", &it[..it.len().min(6)], &m[..n.min(6)]);
        }
        let it: Vec<W> = (&b).into_iter().collect();
        if &it != m {
            bad!("BitFieldVec::into_iter", "(&b).into_iter() differs");
        }
        if PROTO.load(std::sync::atomic::Ordering::Relaxed) {
            // the iterator protocol beyond a plain pass (nth / skip / step_by / count / last / size_hint)
            if let Some(w) = vh::models::iter_protocol(|| b.iter(), m) {
                bad!("BitFieldVec::iter", "{}", w);
            }
            if let Some(w) = vh::models::iter_protocol(|| (&b).into_iter(), m) {
                bad!("BitFieldVec::into_iter", "{}", w);
            }
            for k in [0usize, 1.min(n), n / 2, n] {
                if let Some(w) = vh::models::iter_protocol(|| b.iter_from(k), &m[k.min(n)..]) {
                    bad!("BitFieldVec::iter_from", "from {}: {}", k, w);
                }
            }
        }
        for j in 0..=n {
            let mut it = b.iter_from(j);
            let mut k = j;
            loop {
                if it.len() != n - k || it.size_hint() != (n - k, Some(n - k)) {
                    bad!("BitFieldVec::iter_from", "iter_from({j}): len() = {} after {} items, expected {}", it.len(), k - j, n - k);
                    break;
                }
                match it.next() {
                    Some(x) => {
                        if k >= n || x != m[k] {
                            bad!("BitFieldVec::iter_from", "iter_from({j}): item {} = {:?} wrong", k - j, x);
                            break;
                        }
                        k += 1;
                    }
                    None => {
                        if k != n {
                            bad!("BitFieldVec::iter_from", "iter_from({j}) ended after {} items", k - j);
                        }
                        break;
                    }
                }
            }
            // unchecked forward iterator from j: exactly n - j items
            let mut u = (&b).into_unchecked_iter_from(j);
            for k in j..n {
                let x = unsafe { u.next_unchecked() };
                if x != m[k] {
                    bad!("BitFieldVec::into_unchecked_iter_from", "from {j}: item {} = {:?} expected {:?}", k - j, x, m[k]);
                    break;
                }
            }
            // reverse unchecked iterator from j: exactly j items, m[j-1], m[j-2], ...
            let mut u = (&b).into_rev_unchecked_iter_from(j);
            for k in (0..j).rev() {
                let x = unsafe { u.next_unchecked() };
                if x != m[k] {
                    bad!("BitFieldVec::into_rev_unchecked_iter_from", "from {j}: item at {k} = {:?} expected {:?}", x, m[k]);
                    break;
                }
            }
        }
        {
            let mut u = (&b).into_rev_unchecked_iter();
            for k in (0..n).rev() {
                let x = unsafe { u.next_unchecked() };
                if x != m[k] {
                    bad!("BitFieldVec::into_rev_unchecked_iter", "item at {k} wrong");
                    break;
                }
            }
        }
        // equality
        let mut fresh = BitFieldVec::<W>::new(w, n);
        for i in 0..n {
            fresh.set(i, m[i]);
        }
        if !(b == fresh) || !(fresh == b) || b != fresh {
            bad!("BitFieldVec::eq", "not equal to a fresh vector with the same values");
        }
        if w > 0 {
            // elements to perturb: first, middle, last, the element lying across the boundary of the last
            // (partially used) word and its neighbours; both the lowest and the highest bit of the field
            let last_word_bit = (n * w / W::BITS) * W::BITS;
            let js = last_word_bit / w;
            let mut cand = vec![0usize, n / 2, n.wrapping_sub(1), js.wrapping_sub(1), js, js + 1, kcross::<W>(w)];
            cand.sort();
            cand.dedup();
            for j in cand {
                if j < n {
                    for flip in [W::ONE, W::ONE << (w - 1)] {
                        let mut d = fresh.clone();
                        d.set(j, m[j] ^ flip);
                        if b == d || !(b != d) || d == b {
                            bad!("BitFieldVec::eq", "equal to a vector differing in element {j} (bit mask {flip:?})");
                        }
                    }
                }
            }
            if w < W::BITS {
                let mut o = BitFieldVec::<W>::new(w + 1, n);
                for i in 0..n {
                    o.set(i, m[i]);
                }
                if b == o {
                    bad!("BitFieldVec::eq", "equal to a vector of different bit width");
                }
            }
        }
        {
            let mut longer = fresh.clone();
            longer.push(W::ZERO);
            if b == longer {
                bad!("BitFieldVec::eq", "equal to a longer vector");
            }
            // same values, different garbage beyond len*width
            let (mut ws, bw, l) = fresh.clone().into_raw_parts();
            let bits = l * bw;
            if bits % W::BITS != 0 {
                let last = bits / W::BITS;
                ws[last] ^= W::MAX << (bits % W::BITS);
            }
            ws.push(W::MAX);
            let d = unsafe { BitFieldVec::<W>::from_raw_parts(ws, bw, l) };
            if !(b == d) || !(d == b) {
                bad!("BitFieldVec::eq", "not equal to a vector differing only beyond len*width");
            }
        }
        // from_slice round trips
        match BitFieldVec::<u128>::from_slice(&b) {
            Ok(x) => {
                let maxw = m.iter().map(|v| 128 - v.to_u128().leading_zeros() as usize).max().unwrap_or(0);
                // (an all-zero slice is given width 1 by from_slice: the value 0 is considered one bit long)
                if x.len() != n || x.bit_width() < maxw || x.bit_width() > maxw.max(1) || (0..n).any(|i| x.get(i) != m[i].to_u128()) {
                    bad!("BitFieldVec::from_slice", "from_slice into u128 differs (width {} expected {})", x.bit_width(), maxw);
                }
            }
            Err(e) => bad!("BitFieldVec::from_slice", "from_slice into u128 failed: {e}"),
        }
        {
            let maxw = m.iter().map(|v| 128 - v.to_u128().leading_zeros() as usize).max().unwrap_or(0);
            let r = BitFieldVec::<u8>::from_slice(&b);
            match r {
                Ok(x) => {
                    if maxw > 8 || x.len() != n || (0..n).any(|i| x.get(i) as u128 != m[i].to_u128()) {
                        bad!("BitFieldVec::from_slice", "from_slice into u8 wrong (max width {maxw})");
                    }
                }
                Err(_) => {
                    if maxw <= 8 {
                        bad!("BitFieldVec::from_slice", "from_slice into u8 failed although values fit");
                    }
                }
            }
        }
        // boxed and slice-backed reads
        {
            let bb: BitFieldVec<W, Box<[W]>> = b.clone().into();
            if bb.len() != n || (0..n).any(|i| bb.get(i) != m[i]) || bb.iter().collect::<Vec<_>>() != *m {
                bad!("BitFieldVec<Box>::get", "boxed reads differ");
            }
            let sl = unsafe { BitFieldVec::<W, &[W]>::from_raw_parts(s.words.as_slice(), w, n) };
            if (0..n).any(|i| sl.get(i) != m[i]) || sl.iter().collect::<Vec<_>>() != *m || !(sl == fresh) {
                bad!("BitFieldVec<&[W]>::get", "slice-backed reads differ");
            }
        }
        // atomic reads
        if let Some(a) = W::atomic_get_all(b.clone()) {
            if &a != m {
                bad!("AtomicBitFieldVec::get_atomic", "atomic reads differ");
            }
        }
        out
    });
    match r {
        Outcome::Ret(out) => {
            for (site, class, what) in out {
                viol.push((format!("{prop}|{site}|{class}"), what));
            }
        }
        Outcome::Panic(msg) => viol.push((format!("{prop}|BitFieldVec::<observation>|panic"), format!("W={} width={w}: observation panicked: {msg}", W::NAME))),
    }
    // rejected operations
    let unchanged = |b: BitFieldVec<W>| {
        let (ws, bw, l) = b.into_raw_parts();
        ws == s.words && bw == s.width && l == s.len
    };
    let mut rej = |site: &str, what: String, b: BitFieldVec<W>, panicked: bool| {
        if !panicked {
            viol.push((format!("{prop}|{site}|invalid-op-not-rejected"), what.clone()));
        }
        if !unchanged(b) {
            viol.push((format!("{prop}|{site}|rejected-op-changed-contents"), what));
        }
    };
    for idx in [n, n + 1, usize::MAX / 2] {
        let b = real(s);
        let r = guard(|| {
            b.get(idx);
        });
        rej("BitFieldVec::get", format!("get({idx}) with len {n}"), b, r.is_panic());
        let mut b = real(s);
        let r = guard(|| b.set(idx, W::ZERO));
        rej("BitFieldVec::set", format!("set({idx}, 0) with len {n}"), b, r.is_panic());
        if let Some((p, b)) = W::atomic_bad_set(real(s), idx, W::ZERO) {
            rej("AtomicBitFieldVec::set_atomic", format!("set_atomic({idx}, 0) with len {n}"), b, p);
        }
    }
    {
        let b = real(s);
        let r = guard(|| {
            let _ = b.iter_from(n + 1);
        });
        rej("BitFieldVec::iter_from", format!("iter_from({}) with len {n}", n + 1), b, r.is_panic());
    }
    if w < W::BITS {
        let toobig = [mask::<W>(w).wrapping_add(W::ONE), W::MAX];
        for v in toobig {
            if n > 0 {
                let mut b = real(s);
                let r = guard(|| b.set(0, v));
                rej("BitFieldVec::set", format!("set(0, {v:?}) with width {w}"), b, r.is_panic());
                if let Some((p, b)) = W::atomic_bad_set(real(s), 0, v) {
                    rej("AtomicBitFieldVec::set_atomic", format!("set_atomic(0, {v:?}) with width {w}"), b, p);
                }
            }
            let mut b = real(s);
            let r = guard(|| b.push(v));
            rej("BitFieldVec::push", format!("push({v:?}) with width {w}"), b, r.is_panic());
            // a value that does not fit is rejected whatever the new length (growing, same, shrinking, empty)
            for nl in [n + 2, n, n / 2, 0] {
                let mut b = real(s);
                let r = guard(|| b.resize(nl, v));
                rej("BitFieldVec::resize", format!("resize({nl}, {v:?}) with width {w} and len {n}"), b, r.is_panic());
            }
        }
    }
}

fn step<W: WX>(prop: &str, s: &St<W>, op: &Op<W>, viol: &mut Vec<Viol>) -> Option<St<W>> {
    let mut model = s.model.clone();
    let mret = apply_model(&mut model, s.width, op);
    let r = guard(|| apply_real(s, op));
    let (w, l, ret, log) = match r {
        Outcome::Ret(Some(x)) => x,
        Outcome::Ret(None) => return None, // operation not available for this word type
        Outcome::Panic(m) => {
            viol.push((format!("{prop}|{}|panic", site(op)), format!("W={} width={}: in-domain operation panicked: {m}", W::NAME, s.width)));
            return None;
        }
    };
    if ret != mret {
        viol.push((format!("{prop}|{}|wrong-return", site(op)), format!("returned {ret:?} expected {mret:?}")));
    }
    if let Some(args) = log {
        if args != s.model {
            viol.push((
                format!("{prop}|{}|callback-sequence", site(op)),
                format!("W={} width={} len={}: f was called {} times on {:?}.. expected once per element in order on {:?}..", W::NAME, s.width, s.len, args.len(), &args[..args.len().min(5)], &s.model[..s.model.len().min(5)]),
            ));
        }
    }
    // footprint
    let (a, b) = footprint(op, s.len);
    let (a, b) = (a * s.width, b * s.width);
    let nw = s.words.len().min(w.len());
    for k in 0..nw {
        let lo = k * W::BITS;
        let mut allowed = W::ZERO;
        if a < lo + W::BITS && b > lo {
            let x = a.max(lo) - lo;
            let y = b.min(lo + W::BITS) - lo;
            allowed = if y - x == W::BITS { W::MAX } else { ((W::ONE << (y - x)) - W::ONE) << x };
        }
        if (s.words[k] ^ w[k]) & !allowed != W::ZERO {
            viol.push((
                format!("{prop}|{}|writes-outside-footprint", site(op)),
                format!("W={} width={} word {k}: {:?} -> {:?}, allowed mask {:?} (len {} -> {})", W::NAME, s.width, s.words[k], w[k], allowed, s.len, l),
            ));
            break;
        }
    }
    if w.len() < s.words.len() && !matches!(op, Op::BoxedSet(..) | Op::AtomicBoxSet(..)) {
        viol.push((format!("{prop}|{}|storage-shrunk", site(op)), format!("{} -> {} words", s.words.len(), w.len())));
    }
    let cap = w.capacity();
    Some(St { words: w, width: s.width, len: l, cap, model })
}

fn pattern<W: WX>(w: usize, n: usize, salt: u64) -> Vec<W> {
    let m = mask::<W>(w);
    (0..n).map(|i| W::from_u128(((mix(i as u64 * 2 + salt) as u128) << 64) | mix(i as u64 * 2 + 1 + salt) as u128) & m).collect()
}

fn seeds<W: WX>(prop: &str, w: usize, thorough: bool) -> Vec<(String, St<W>)> {
    let k = kcross::<W>(w);
    let mut v = vec![];
    let mk = |b: BitFieldVec<W>, model: Vec<W>| {
        let (words, width, len) = b.into_raw_parts();
        let cap = words.capacity();
        St { words, width, len, cap, model }
    };
    if prop == "C05" {
        let mut lens = vec![0, k.saturating_sub(1), k, k + 1];
        if thorough {
            lens.push(2 * k + 1);
        }
        lens.dedup();
        for &n in &lens {
            v.push((format!("new({w},{n})"), mk(BitFieldVec::new(w, n), vec![W::ZERO; n])));
            let p = pattern::<W>(w, n, 3);
            let mut b = BitFieldVec::<W>::new(w, n);
            for i in 0..n {
                b.set(i, p[i]);
            }
            v.push((format!("new({w},{n})+set(pattern)"), mk(b, p.clone())));
            let mut b = BitFieldVec::<W>::with_capacity(w, n);
            for &x in &p {
                b.push(x);
            }
            v.push((format!("with_capacity({w},{n})+push(pattern)"), mk(b, p.clone())));
        }
        v.push((format!("new_unaligned({w},{k})"), mk(BitFieldVec::new_unaligned(w, k), vec![W::ZERO; k])));
        v.push((format!("with_capacity({w},0)"), mk(BitFieldVec::with_capacity(w, 0), vec![])));
        v.push((format!("with_capacity({w},{k})"), mk(BitFieldVec::with_capacity(w, k), vec![])));
        // from_slice gives the minimal width: use it as a seed when it reproduces w
        let p = pattern::<W>(w, k + 1, 5);
        let mut b = BitFieldVec::<W>::new(w, k + 1);
        for i in 0..=k {
            b.set(i, p[i]);
        }
        if let Ok(f) = BitFieldVec::<W>::from_slice(&b) {
            if f.bit_width() == w {
                v.push((format!("from_slice(pattern {w},{})", k + 1), mk(f, p.clone())));
            }
        }
    } else {
        let lens = if thorough { vec![0, 1, k.saturating_sub(1), k, k + 1, 2 * k + 1] } else { vec![0, k.saturating_sub(1), k, k + 1] };
        for &n in &lens {
            let p = pattern::<W>(w, n, 9);
            for spare in 0..=2usize {
                for g in 0..4 {
                    let mut b = BitFieldVec::<W>::new(w, n);
                    for i in 0..n {
                        b.set(i, p[i]);
                    }
                    let (mut ws, _, _) = b.into_raw_parts();
                    let bits = n * w;
                    ws.truncate(bits.div_ceil(W::BITS).max(1));
                    let garbage = |j: usize| -> W {
                        match g {
                            0 => W::MAX,
                            1 => W::from_u128(0xAAAA_AAAA_AAAA_AAAA_AAAA_AAAA_AAAA_AAAAu128).rotate_left(j as u32),
                            _ => W::ZERO,
                        }
                    };
                    let used_words = bits.div_ceil(W::BITS);
                    if bits % W::BITS != 0 {
                        let last = used_words - 1;
                        let keep = (W::ONE << (bits % W::BITS)) - W::ONE;
                        let gb = match g {
                            2 => W::ONE << (bits % W::BITS),
                            3 => W::ZERO,
                            _ => garbage(last),
                        };
                        ws[last] = (ws[last] & keep) | (gb & !keep);
                    } else if used_words == 0 {
                        // the single word `new` always allocates is spare storage
                        ws[0] = match g {
                            2 => W::ONE,
                            3 => W::MAX,
                            _ => garbage(0),
                        };
                    }
                    for j in 0..spare {
                        ws.push(match g {
                            2 => W::ONE,
                            3 => W::MAX,
                            _ => garbage(j + 1),
                        });
                    }
                    if spare == 0 && bits % W::BITS == 0 && used_words > 0 && g > 0 {
                        continue;
                    }
                    v.push((format!("from_raw_parts(width={w}, len={n}, spare_words={spare}, garbage_kind={g})"), St { cap: ws.capacity(), words: ws, width: w, len: n, model: p.clone() }));
                }
            }
        }
    }
    v
}

fn run<W: WX>(ctx: &mut Ctx, prop: &str, widths: &[usize], depth: u32) {
    for &w in widths {
        if w > W::BITS {
            continue;
        }
        if !ctx.common_case(|| format!("BitFieldVec<{}>::<seed-construction> width={w}", W::NAME)) {
            ctx.cap("seed construction crashed for a (word, width) pair");
            continue;
        }
        let t = ctx.thorough();
        let sd = match guard(|| seeds::<W>(prop, w, t)) {
            Outcome::Ret(s) => s,
            Outcome::Panic(m) => {
                ctx.violation(&format!("{prop}|BitFieldVec::<constructors>|panic"), format!("W={} width={w}: constructing seed vectors panicked: {m}", W::NAME));
                continue;
            }
        };
        for (name, seed) in sd {
            if ctx.case(|| format!("BitFieldVec<{}> width={w} seed={name} first_op=<none>", W::NAME)) {
                let mut viol = vec![];
                PROTO.store(true, std::sync::atomic::Ordering::Relaxed);
                observe(prop, &seed, &mut viol);
                PROTO.store(false, std::sync::atomic::Ordering::Relaxed);
                ctx.states += 1;
                for (k, x) in viol {
                    ctx.violation(&k, format!("{x}; in seed state"));
                }
            }
            for op in ops(&seed) {
                if !ctx.case(|| format!("{}<{}> width={w} seed={name} first_op={op:?}", site(&op), W::NAME)) {
                    continue;
                }
                let mut viol = vec![];
                let next = step(prop, &seed, &op, &mut viol);
                ctx.transitions += 1;
                for (k, x) in viol.drain(..) {
                    ctx.violation(&k, format!("{x}; history=[{op:?}] from seed"));
                }
                let Some(start) = next else { continue };
                let bits = start.len * start.width;
                if bits % W::BITS != 0 || start.words.len() > bits.div_ceil(W::BITS) || (w > 0 && W::BITS % w != 0 && start.len > kcross::<W>(w)) {
                    ctx.nontrivial();
                }
                let (p, p2) = (prop.to_string(), prop.to_string());
                bfs(
                    ctx,
                    start,
                    depth - 1,
                    2_000_000,
                    |s: &St<W>| (s.words.clone(), s.len, s.cap),
                    ops::<W>,
                    move |s, o, v| step(&p, s, o, v),
                    move |s, v| observe(&p2, s, v),
                );
            }
        }
    }
}

fn main() {
    let mut ctx = Ctx::from_args();
    start_watchdog(600);
    let prop = ctx.opt("prop").unwrap_or("C05").to_string();
    let depth: u32 = ctx.opt("depth").map(|d| d.parse().unwrap()).unwrap_or(if ctx.thorough() { 4 } else { 3 });
    let words = ctx.opt("words").unwrap_or(if ctx.thorough() { "u8,u16,u32,u64,usize,u128" } else { "u8,u16,usize" }).to_string();
    let all8: Vec<usize> = (0..=8).collect();
    let all16: Vec<usize> = (0..=16).collect();
    let t = ctx.thorough();
    for wname in words.split(',') {
        match wname {
            "u8" => run::<u8>(&mut ctx, &prop, if t { &all8 } else { &[0, 1, 3, 5, 7, 8] }, depth),
            "u16" => run::<u16>(&mut ctx, &prop, if t { &all16 } else { &[0, 1, 5, 11, 15, 16] }, depth),
            "u32" => run::<u32>(&mut ctx, &prop, &[0, 1, 3, 7, 8, 15, 16, 17, 31, 32], depth),
            "u64" => run::<u64>(&mut ctx, &prop, &[0, 1, 2, 3, 5, 7, 8, 13, 31, 32, 33, 59, 61, 62, 63, 64], depth),
            "usize" => run::<usize>(&mut ctx, &prop, if t { &[0, 1, 2, 3, 5, 7, 8, 13, 31, 32, 33, 59, 61, 62, 63, 64] } else { &[0, 1, 7, 33, 63, 64] }, depth),
            "u128" => run::<u128>(&mut ctx, &prop, &[0, 1, 7, 64, 65, 127, 128], depth),
            x => panic!("unknown word type {x}"),
        }
    }
    ctx.finish();
}

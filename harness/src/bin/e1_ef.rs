//! C03 / C04 — Elias–Fano against a sorted `Vec<usize>`: every builder, every
//! back-end, all indices / start positions (C03) and all queries of a boundary
//! set covering the whole usize range (C04).
//!
//! `--opt prop=C03|C04`.
use sux::prelude::*;
use sux::traits::{IntoIteratorFrom, SelectUnchecked, SelectZeroUnchecked};
use vh::rt::*;

type Low = BitFieldVec<usize, Box<[usize]>>;

#[derive(Clone, Copy, Debug, PartialEq)]
enum Builder {
    Push,
    Extend,
    FromSlice,
    ConcurrentInOrder,
    ConcurrentReverse,
    ConcurrentPerm(usize),
}

fn perm(n: usize, mut k: usize) -> Vec<usize> {
    let mut items: Vec<usize> = (0..n).collect();
    let mut out = vec![];
    for i in (1..=n).rev() {
        out.push(items.remove(k % i));
        k /= i;
    }
    out
}

fn build_plain(s: &[usize], u: usize, b: Builder) -> EliasFano {
    let n = s.len();
    match b {
        Builder::Push => {
            let mut efb = EliasFanoBuilder::new(n, u);
            for &x in s {
                efb.push(x);
            }
            efb.build()
        }
        Builder::Extend => {
            let mut efb = EliasFanoBuilder::new(n, u);
            efb.extend(s.iter().copied());
            efb.build()
        }
        Builder::FromSlice => EliasFano::from(s),
        Builder::ConcurrentInOrder | Builder::ConcurrentReverse | Builder::ConcurrentPerm(_) => {
            let efb = EliasFanoConcurrentBuilder::new(n, u);
            let order: Vec<usize> = match b {
                Builder::ConcurrentInOrder => (0..n).collect(),
                Builder::ConcurrentReverse => (0..n).rev().collect(),
                Builder::ConcurrentPerm(k) => perm(n, k),
                _ => unreachable!(),
            };
            for i in order {
                unsafe { efb.set(i, s[i]) };
            }
            efb.build()
        }
    }
}

fn chk_seq<H: AsRef<[usize]> + SelectUnchecked>(ctx: &mut Ctx, name: &str, ef: &EliasFano<H, Low>, s: &[usize]) {
    let n = s.len();
    let key = |c: &str| format!("C03|EliasFano<{name}>::{c}|wrong-answer");
    if ef.len() != n || IndexedSeq::len(ef) != n || ef.is_empty() != (n == 0) {
        ctx.violation(&key("len"), format!("len() = {} expected {n}", ef.len()));
        return;
    }
    for i in 0..n {
        let g = ef.get(i);
        if g != s[i] {
            ctx.violation(&key("get"), format!("get({i}) = {g} expected {}", s[i]));
            break;
        }
    }
    for k in [1usize, n / 2, n] {
        if k <= n {
            if let Some(w) = vh::models::iter_protocol(|| ef.iter_from(k), &s[k..]) {
                ctx.violation(&key("iter_from"), format!("from {k}: {w}"));
            }
        }
    }
    let starts: Vec<usize> = if n <= 80 { (0..=n).collect() } else { vec![0, 1, 63, 64, 65, n / 2, n - 65, n - 64, n - 1, n] };
    for &k in &starts {
        for which in 0..2 {
            let mut it = if which == 0 { ef.iter_from(k) } else { ef.into_iter_from(k) };
            let mut j = k;
            loop {
                if it.len() != n - j || it.size_hint() != (n - j, Some(n - j)) {
                    ctx.violation(&key("iter_from"), format!("iter_from({k}): len() = {} after {} items, expected {}", it.len(), j - k, n - j));
                    break;
                }
                match it.next() {
                    Some(x) => {
                        if j >= n || x != s[j] {
                            ctx.violation(&key("iter_from"), format!("iter_from({k}): item {} = {x} expected {:?}", j - k, s.get(j..j + 1)));
                            break;
                        }
                        j += 1;
                    }
                    None => {
                        if j != n {
                            ctx.violation(&key("iter_from"), format!("iter_from({k}) ended after {} items, expected {}", j - k, n - k));
                        }
                        break;
                    }
                }
            }
        }
    }
}

fn chk_iter<H: AsRef<[usize]>>(ctx: &mut Ctx, name: &str, ef: &EliasFano<H, Low>, s: &[usize]) {
    let n = s.len();
    let key = |c: &str| format!("C03|EliasFano<{name}>::{c}|wrong-answer");
    if ef.len() != n {
        ctx.violation(&key("len"), format!("len() = {} expected {n}", ef.len()));
        return;
    }
    if let Some(w) = vh::models::iter_protocol(|| ef.iter(), s) {
        ctx.violation(&key("iter"), w);
    }
    for which in 0..2 {
        let mut it = if which == 0 { ef.iter() } else { ef.into_iter() };
        let mut j = 0;
        loop {
            if it.len() != n - j {
                ctx.violation(&key("iter"), format!("iter(): len() = {} after {j} items", it.len()));
                break;
            }
            match it.next() {
                Some(x) => {
                    if j >= n || x != s[j] {
                        ctx.violation(&key("iter"), format!("iter(): item {j} = {x} expected {:?}", s.get(j..j + 1)));
                        break;
                    }
                    j += 1;
                }
                None => {
                    if j != n {
                        ctx.violation(&key("iter"), format!("iter() ended after {j} items"));
                    }
                    break;
                }
            }
        }
    }
}

fn queries(s: &[usize], u: usize) -> Vec<usize> {
    let max = s.last().copied().unwrap_or(0);
    let mut q: Vec<usize> = vec![0, 1, u.wrapping_sub(1), u, u.wrapping_add(1), u.wrapping_add(2), 1 << 32, (1 << 32) + 1, 1 << 63, usize::MAX - 1, usize::MAX, max.wrapping_add(1), max.wrapping_add(2), u / 2];
    if max <= 3000 {
        q.extend(0..=max + 2);
    } else {
        for &x in s.iter().take(200).chain(s.iter().rev().take(200)) {
            q.extend([x.wrapping_sub(1), x, x.wrapping_add(1)]);
        }
    }
    // buckets around u: first value of the next high-bit bucket etc.
    for sh in [1usize, 8, 16, 32] {
        q.push(u.wrapping_add(1 << sh));
        q.push(u.saturating_mul(2));
    }
    q.sort();
    q.dedup();
    q
}

fn chk_pair(ctx: &mut Ctx, key: &str, what: &str, q: usize, got: Option<(usize, usize)>, want: Option<usize>, s: &[usize]) {
    let ok = match (got, want) {
        (None, None) => true,
        (Some((i, v)), Some(w)) => v == w && i < s.len() && s[i] == v,
        _ => false,
    };
    if !ok {
        ctx.violation(key, format!("{what}({q}) = {got:?} expected value {want:?}"));
    }
}

/// The same queries through the hand-written forwarding impls of Succ / Pred for references.
fn via_ref<S: Succ<Input = usize, Output = usize> + Pred<Input = usize, Output = usize>>(s: S, q: usize) -> [Option<(usize, usize)>; 4] {
    [s.succ(q), s.succ_strict(q), s.pred(q), s.pred_strict(q)]
}

fn chk_dict<H: AsRef<[usize]> + SelectUnchecked + SelectZeroUnchecked>(ctx: &mut Ctx, name: &str, ef: &EliasFano<H, Low>, s: &[usize], u: usize) {
    for q in queries(s, u) {
        let direct = [ef.succ(q), ef.succ_strict(q), ef.pred(q), ef.pred_strict(q)];
        if via_ref(ef, q) != direct || via_ref(&ef, q) != direct {
            ctx.violation(&format!("C04|EliasFano<{name}>::<Succ/Pred-through-a-reference>|wrong-answer"), format!("query {q}: calls through &EliasFano give {:?}, direct calls give {direct:?}", via_ref(ef, q)));
        }
        let key = |c: &str| format!("C04|EliasFano<{name}>::{c}|wrong-answer");
        let io = ef.index_of(q);
        let present = s.binary_search(&q).is_ok();
        match io {
            Some(i) => {
                if i >= s.len() || s[i] != q {
                    ctx.violation(&key("index_of"), format!("index_of({q}) = {io:?} but that index holds {:?}", s.get(i..(i + 1).min(s.len()))));
                }
            }
            None => {
                if present {
                    ctx.violation(&key("index_of"), format!("index_of({q}) = None but {q} occurs"));
                }
            }
        }
        if ef.contains(q) != present {
            ctx.violation(&key("contains"), format!("contains({q}) = {} expected {present}", !present));
        }
        chk_pair(ctx, &key("succ"), "succ", q, ef.succ(q), s.iter().copied().find(|&x| x >= q), s);
        chk_pair(ctx, &key("succ_strict"), "succ_strict", q, ef.succ_strict(q), s.iter().copied().find(|&x| x > q), s);
        chk_pair(ctx, &key("pred"), "pred", q, ef.pred(q), s.iter().rev().copied().find(|&x| x <= q), s);
        chk_pair(ctx, &key("pred_strict"), "pred_strict", q, ef.pred_strict(q), s.iter().rev().copied().find(|&x| x < q), s);
    }
}

fn chk_index_only<H: AsRef<[usize]> + SelectZeroUnchecked>(ctx: &mut Ctx, name: &str, ef: &EliasFano<H, Low>, s: &[usize], u: usize) {
    for q in queries(s, u) {
        let io = ef.index_of(q);
        let present = s.binary_search(&q).is_ok();
        let ok = match io {
            Some(i) => i < s.len() && s[i] == q,
            None => !present,
        };
        if !ok {
            ctx.violation(&format!("C04|EliasFano<{name}>::index_of|wrong-answer"), format!("index_of({q}) = {io:?}, occurs = {present}"));
        }
    }
}

/// One case = (sequence, u, builder): all back-ends are derived from the same plain structure.
fn one_case(ctx: &mut Ctx, prop: &str, s: &[usize], u: usize, b: Builder, thorough: bool) {
    let c03 = prop == "C03";
    let site = format!("EliasFano::<builder {b:?}>");
    let plain = match guard(|| build_plain(s, u, b)) {
        Outcome::Ret(e) => e,
        Outcome::Panic(m) => {
            ctx.violation(&format!("{prop}|{}|panic", site.split(' ').next().unwrap().to_string() + &format!("{:?}", b).split('(').next().unwrap()), format!("building panicked: {m}"));
            return;
        }
    };
    macro_rules! backend {
        ($name:expr, $map:expr, seq: $seq:expr, dict: $dict:expr) => {{
            let name: &str = $name;
            let r = guard(|| {
                let e = plain.clone();
                #[allow(unused_unsafe)]
                unsafe {
                    $map(e)
                }
            });
            match r {
                Outcome::Panic(m) => ctx.violation(&format!("{prop}|EliasFano<{name}>::map_high_bits|panic"), format!("building the selection structure panicked: {m}")),
                Outcome::Ret(ef) => {
                    let r = guard(|| {
                        if c03 {
                            chk_iter(ctx, name, &ef, s);
                            $seq(&mut *ctx, name, &ef, s);
                        } else {
                            $dict(&mut *ctx, name, &ef, s, u);
                        }
                    });
                    if let Outcome::Panic(m) = r {
                        ctx.violation(&format!("{prop}|EliasFano<{name}>|query-panic"), format!("a query panicked: {m}"));
                    }
                }
            }
        }};
    }
    fn no_seq<H>(_: &mut Ctx, _: &str, _: &EliasFano<H, Low>, _: &[usize]) {}
    fn no_dict<H>(_: &mut Ctx, _: &str, _: &EliasFano<H, Low>, _: &[usize], _: usize) {}
    if c03 {
        let r = guard(|| chk_iter(ctx, "plain", &plain, s));
        if let Outcome::Panic(m) = r {
            ctx.violation("C03|EliasFano<plain>|query-panic", format!("iteration panicked: {m}"));
        }
    }
    backend!("EfSeqDict", |e: EliasFano| e.map_high_bits(|h| SelectZeroAdaptConst::<_, _, 12, 3>::new(SelectAdaptConst::<_, _, 12, 3>::new(h))), seq: chk_seq, dict: chk_dict);
    backend!("EfSeq", |e: EliasFano| e.map_high_bits(SelectAdaptConst::<_, _, 12, 3>::new), seq: chk_seq, dict: no_dict);
    backend!("EfSeqDict+map_low_bits(Box->Vec->Box)", |e: EliasFano| e.map_low_bits(|l| -> BitFieldVec<usize, Box<[usize]>> { let v: BitFieldVec<usize, Vec<usize>> = l.into(); v.into() }).map_high_bits(|h| SelectZeroAdaptConst::<_, _, 12, 3>::new(SelectAdaptConst::<_, _, 12, 3>::new(h))), seq: chk_seq, dict: chk_dict);
    backend!("EfDict", |e: EliasFano| e.map_high_bits(SelectZeroAdaptConst::<_, _, 12, 3>::new), seq: no_seq, dict: chk_index_only);
    backend!("SelectZeroAdapt(SelectAdapt)", |e: EliasFano| e.map_high_bits(|h| SelectZeroAdapt::new(SelectAdapt::new(h, 3), 3)), seq: chk_seq, dict: chk_dict);
    backend!("SelectZeroAdaptConst<2,1>(SelectAdaptConst<2,1>)", |e: EliasFano| e.map_high_bits(|h| SelectZeroAdaptConst::<_, _, 2, 1>::new(SelectAdaptConst::<_, _, 2, 1>::new(h))), seq: chk_seq, dict: chk_dict);
    if thorough || s.len() <= 3 {
        backend!("SelectZeroAdapt(Select9(Rank9))", |e: EliasFano| e.map_high_bits(|h| SelectZeroAdapt::new(Select9::new(Rank9::new(h)), 3)), seq: chk_seq, dict: chk_dict);
        backend!("SelectZeroSmall(SelectSmall(RankSmall<1,9>))", |e: EliasFano| e.map_high_bits(|h| SelectZeroSmall::<1, 9, _>::new(SelectSmall::<1, 9, _>::new(rank_small![1; h]))), seq: chk_seq, dict: chk_dict);
    }
}

fn gen(n: usize, maxv: usize, cur: &mut Vec<usize>, out: &mut Vec<Vec<usize>>) {
    if cur.len() == n {
        out.push(cur.clone());
        return;
    }
    let lo = cur.last().copied().unwrap_or(0);
    for v in lo..=maxv {
        cur.push(v);
        gen(n, maxv, cur, out);
        cur.pop();
    }
}

/// `EliasFano::from(slice)` validates its input: every non-monotone slice of up to 4 values over 0..=4
/// (and the same shifted to the top of the range) must be rejected, every monotone one accepted.
fn invalid_slices(ctx: &mut Ctx) {
    for shift in [0usize, usize::MAX - 4] {
        for n in 2..=4usize {
            for code in 0..5usize.pow(n as u32) {
                let s: Vec<usize> = (0..n).map(|i| shift + (code / 5usize.pow(i as u32)) % 5).collect();
                let monotone = s.windows(2).all(|w| w[0] <= w[1]);
                if !ctx.case(|| format!("EliasFano::from slice={s:?}")) {
                    continue;
                }
                ctx.nontrivial();
                let r = guard(|| {
                    let ef = EliasFano::from(&s[..]);
                    ef.iter().collect::<Vec<_>>()
                });
                match (monotone, r) {
                    (false, Outcome::Ret(g)) => ctx.violation("C03|EliasFano::from|non-monotone-slice-accepted", format!("from({s:?}) was accepted and reads back {g:?}")),
                    (true, Outcome::Panic(m)) => ctx.violation("C03|EliasFano::from|panic", format!("from({s:?}): {m}")),
                    (true, Outcome::Ret(g)) if g != s => ctx.violation("C03|EliasFano::from|wrong-observation", format!("from({s:?}) reads back {g:?}")),
                    _ => {}
                }
            }
        }
    }
}

fn invalid_pushes(ctx: &mut Ctx) {
    // every (n, u, prefix, bad value) with n <= 3, u in {0, 5, MAX}: the bad push must panic and
    // the builder must continue exactly as if it had not happened
    for &u in &[0usize, 5, 1000, usize::MAX] {
        for n in 0..=3usize {
            let mut seqs = vec![];
            let top = u.min(6);
            gen(n, top, &mut vec![], &mut seqs);
            for s in seqs {
                for k in 0..=n {
                    // after pushing s[..k], try the bad value
                    let mut bads: Vec<(usize, &str)> = vec![];
                    if k == n {
                        bads.push((s.last().copied().unwrap_or(0), "too-many"));
                    } else {
                        if u < usize::MAX {
                            bads.push((u + 1, "above-u"));
                            bads.push((usize::MAX, "above-u"));
                        }
                        if k > 0 && s[k - 1] > 0 {
                            bads.push((s[k - 1] - 1, "out-of-order"));
                            bads.push((0, "out-of-order"));
                        }
                    }
                    // the valid prefix arrives by push, by one extend or by one extend per value; the bad value
                    // by push, as a one-element extend, or at the head of an extend carrying the valid rest
                    for (bad, class) in bads.into_iter().flat_map(|b| (0..9usize).map(move |mode| (b, mode))).map(|((bad, class), mode)| ((bad, mode), class)) {
                        let (bad, mode) = bad;
                        let (pmode, bmode) = (mode / 3, mode % 3);
                        if k == 0 && pmode > 0 {
                            continue;
                        }
                        if !ctx.case(|| format!("EliasFanoBuilder::push invalid n={n} u={u} seq={s:?} after={k} bad={bad} class={class} prefix-by={} bad-by={}", ["push", "extend", "extend-each"][pmode], ["push", "extend-one", "extend-with-rest"][bmode])) {
                            continue;
                        }
                        ctx.nontrivial();
                        let r = guard(|| {
                            let mut efb = EliasFanoBuilder::new(n, u);
                            match pmode {
                                0 => {
                                    for &x in &s[..k] {
                                        efb.push(x);
                                    }
                                }
                                1 => efb.extend(s[..k].iter().copied()),
                                _ => {
                                    for &x in &s[..k] {
                                        efb.extend(std::iter::once(x));
                                    }
                                }
                            }
                            let rejected = match bmode {
                                0 => guard(|| efb.push(bad)).is_panic(),
                                1 => guard(|| efb.extend(std::iter::once(bad))).is_panic(),
                                _ => guard(|| efb.extend(std::iter::once(bad).chain(s[k..].iter().copied()))).is_panic(),
                            };
                            // a rejected value must not become the reference of later checks: every invalid value
                            // (also one that would be in order after the rejected one) is still rejected
                            let mut again = true;
                            if class != "too-many" {
                                let last = if k > 0 { s[k - 1] } else { 0 };
                                let mut seconds: Vec<usize> = vec![];
                                if last > 0 {
                                    seconds.extend([0, last - 1, last / 2, bad.min(last - 1)]);
                                }
                                if u < usize::MAX {
                                    seconds.extend([u + 1, usize::MAX]);
                                }
                                for b2 in seconds {
                                    again &= guard(|| efb.push(b2)).is_panic();
                                }
                            }
                            let rejected = rejected && again;
                            // continue with the valid rest on the same builder
                            let cont = guard(|| {
                                for &x in &s[k..] {
                                    efb.push(x);
                                }
                                let ef = efb.build_with_seq();
                                (0..n).map(|i| ef.get(i)).collect::<Vec<_>>()
                            });
                            (rejected, cont.ok())
                        });
                        match r {
                            Outcome::Ret((rejected, cont)) => {
                                if !rejected {
                                    ctx.violation(&format!("C03|EliasFanoBuilder::push|invalid-push-accepted-{class}"), format!("push({bad}) was accepted"));
                                } else if cont.as_deref() != Some(&s[..]) {
                                    ctx.violation("C03|EliasFanoBuilder::push|rejected-push-changed-state", format!("after the rejected push({bad}) the builder produced {cont:?} instead of {s:?}"));
                                }
                            }
                            Outcome::Panic(m) => ctx.violation("C03|EliasFanoBuilder::new|panic", format!("{m}")),
                        }
                    }
                }
            }
        }
    }
}

fn main() {
    let mut ctx = Ctx::from_args();
    start_watchdog(120);
    let prop = ctx.opt("prop").unwrap_or("C03").to_string();
    let t = ctx.thorough();
    let mut run = |ctx: &mut Ctx, fam: &str, s: &[usize], u: usize, builders: &[Builder]| {
        for &b in builders {
            if ctx.case(|| {
                let show: String = if s.len() <= 12 { format!("{s:?}") } else { format!("[{}, {}, .. {} values .., {}]", s[0], s[1], s.len(), s[s.len() - 1]) };
                format!("EliasFano::{:?} family={fam} n={} u={u} seq={show}", b, s.len())
            }) {
                if s.len() >= 2 && s[0] != s[s.len() - 1] {
                    ctx.nontrivial();
                }
                one_case(ctx, &prop, s, u, b, t);
            }
        }
    };
    let std_b = [Builder::Push, Builder::Extend, Builder::ConcurrentReverse];
    // (a) all non-decreasing sequences of length <= N over 0..=M
    let (nmax, vmax) = if t { (9, 17) } else { (6, 14) };
    for n in 0..=nmax {
        let mut seqs = vec![];
        gen(n, vmax, &mut vec![], &mut seqs);
        for s in &seqs {
            let last = s.last().copied().unwrap_or(0);
            let us: Vec<usize> = if t || n <= 4 { vec![last, last + 1, last + 5, last * 8 + 3, last + 1000, 1 << 40] } else { vec![last, last + 1, last * 8 + 3, 1 << 40] };
            for u in us {
                let mut bs: Vec<Builder> = vec![Builder::Push, Builder::Extend];
                if u == last {
                    bs.push(Builder::FromSlice);
                }
                if n <= 4 {
                    let f: usize = (1..=n).product();
                    for k in 0..f {
                        bs.push(Builder::ConcurrentPerm(k));
                    }
                } else {
                    bs.push(Builder::ConcurrentReverse);
                }
                run(&mut ctx, "a-all-sequences", s, u, &bs);
            }
        }
    }
    // (b) (n,u) split probes
    let nb: usize = if t { 40 } else { 12 };
    for n in 1..=nb {
        let mut us: Vec<usize> = vec![];
        for k in 0..=58u32 {
            if let Some(b) = n.checked_mul(1usize << k) {
                us.extend([b - 1, b, b + 1]);
            }
        }
        us.extend([(1 << 63) - 1, 1 << 63, usize::MAX - 1, usize::MAX]);
        us.sort();
        us.dedup();
        for u in us {
            // spread values with the last exactly u; plus all-zero and all-u
            let spread: Vec<usize> = (0..n).map(|i| if n == 1 { u } else { ((u as u128 * i as u128) / (n as u128 - 1)) as usize }).collect();
            run(&mut ctx, "b-split-probes-spread", &spread, u, &std_b);
            if u % 3 == 0 || !t {
                run(&mut ctx, "b-split-probes-all-u", &vec![u; n], u, &[Builder::Push]);
                run(&mut ctx, "b-split-probes-all-0", &vec![0; n], u, &[Builder::Push]);
            }
        }
    }
    // (c) n = 0 and n = 1
    for u in [0usize, 1, 5, 1 << 40, usize::MAX - 1, usize::MAX] {
        run(&mut ctx, "c-empty", &[], u, &[Builder::Push, Builder::Extend, Builder::ConcurrentInOrder]);
        for v in [0, u / 2, u] {
            run(&mut ctx, "c-singleton", &[v], u, &[Builder::Push, Builder::ConcurrentInOrder, Builder::FromSlice][..if v == u { 3 } else { 2 }]);
        }
    }
    // (d) l = 0 with duplicate runs crossing word boundaries
    let dn: Vec<usize> = if t { (1..=200).collect() } else { vec![1, 2, 31, 32, 33, 62, 63, 64, 65, 66, 70, 127, 128, 129, 200] };
    for &n in &dn {
        for u in [0usize, 1, 3] {
            let mut s = vec![0; n];
            run(&mut ctx, "d-dup-runs-all-0", &s, u, &[Builder::Push, Builder::FromSlice][..if u == 0 { 2 } else { 1 }]);
            for i in n / 2..n {
                s[i] = u;
            }
            run(&mut ctx, "d-dup-runs-half", &s, u, &std_b);
            let s2: Vec<usize> = (0..n).map(|i| (i * (u + 1)) / n).collect();
            run(&mut ctx, "d-dup-runs-steps", &s2, u, &[Builder::Push]);
        }
    }
    // (e) around the inventory quantum of the default selectors
    let en: &[usize] = if t { &[4095, 4096, 4097, 8191, 8192, 8193] } else { &[4096, 4097] };
    for &n in en {
        let s: Vec<usize> = (0..n).map(|i| i * 3 + (i % 3)).collect();
        let last = s[n - 1];
        run(&mut ctx, "e-quantum", &s, last, &[Builder::Push, Builder::FromSlice]);
        run(&mut ctx, "e-quantum", &s, last * 100, &[Builder::Push]);
        let dense: Vec<usize> = (0..n).map(|i| i / 3).collect();
        run(&mut ctx, "e-quantum-dense", &dense, dense[n - 1], &[Builder::Push]);
    }
    // (f) two clusters far apart (many empty high-bit buckets), last element == u
    for gap in [1usize << 20, 1 << 40] {
        let mut s: Vec<usize> = (0..5).collect();
        s.extend((0..5).map(|i| gap + i * 2));
        let u = *s.last().unwrap();
        run(&mut ctx, "f-two-clusters", &s, u, &std_b);
        run(&mut ctx, "f-two-clusters", &s, u + 12345, &[Builder::Push]);
    }
    // (g) clustered sequences: a run of empty high-bit buckets longer than one or two 64-bit words
    // of the upper-bits array (needs about as many elements as empty buckets)
    let gn: &[usize] = if t { &[66, 100, 130, 131, 200, 260, 520] } else { &[66, 130, 200, 260] };
    for &n in gn {
        for u in [1usize << 20, 1_000_000, usize::MAX] {
            for (nm, head) in [("head-2", 2usize), ("head-n-2", n - 2), ("head-half", n / 2), ("head-1", 1)] {
                let tail = n - head;
                let mut s: Vec<usize> = (0..head).map(|i| i * 2).collect();
                s.extend((0..tail).map(|i| u - (tail - 1 - i) * 3));
                run(&mut ctx, &format!("g-clustered-{nm}"), &s, u, &[Builder::Push, Builder::ConcurrentReverse]);
            }
            // three clusters
            let third = n / 3;
            let mut s: Vec<usize> = (0..third).collect();
            s.extend((0..third).map(|i| u / 2 + i));
            s.extend((0..n - 2 * third).map(|i| u - (n - 2 * third - 1 - i)));
            run(&mut ctx, "g-clustered-three", &s, u, &[Builder::Push]);
        }
    }
    // (h) size class: tens of thousands of elements, so that the selection structures on the upper bits get
    // many inventory entries and entries of the wider span classes (a dense run followed by an outlier, two
    // distant clusters, an arithmetic progression with a loose u)
    let hn: &[usize] = if t { &[22_000, 40_000, 70_001, 140_000] } else { &[40_000, 70_001] };
    for &n in hn {
        let dense_outlier: Vec<usize> = (0..n - 1).chain([n * 600]).collect();
        run(&mut ctx, "h-large-dense-then-outlier", &dense_outlier, n * 600, &[Builder::Push]);
        let half = n / 2 + 13;
        let two: Vec<usize> = (0..half).map(|i| i / 4).chain((0..n - half).map(|i| 40 * n + i * 43)).collect();
        let u = *two.last().unwrap();
        run(&mut ctx, "h-large-two-clusters", &two, u + 5, &[Builder::Push, Builder::ConcurrentReverse]);
        let arith: Vec<usize> = (0..n).map(|i| 7 + i * 5).collect();
        run(&mut ctx, "h-large-arithmetic-loose-u", &arith, 64 * 5 * n, &[Builder::Extend]);
    }
    // (i) an inventory block of the selectors on the upper bits (4096 ones) spanning exactly 2^16 - 1, 2^16 and
    // 2^16 + 1 bits (the boundary between 16-bit and 32-bit subinventories): with l = 1 the one of element i
    // sits at (x_i >> 1) + i, so after 8192 dense elements a jump to J makes the second block span (J >> 1) + 2048
    for j in [126_974usize, 126_976, 126_978, 2 * (65_536 * 2 - 2048), 2 * (65_536 * 2 - 2048) + 2] {
        let n = 40_000usize;
        let s: Vec<usize> = (0..8192).chain((8192..n).map(|i| j + (i - 8192))).collect();
        let last = *s.last().unwrap();
        run(&mut ctx, "i-inventory-span-at-the-16/32-bit-boundary", &s, (4 * n - 1).max(last), &[Builder::Push]);
    }
    if prop == "C03" {
        invalid_pushes(&mut ctx);
        invalid_slices(&mut ctx);
    }
    ctx.finish();
}

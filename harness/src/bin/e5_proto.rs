//! E5 — exhaustive exploration of the `par_solve` protocol model
//! (`vh::proto`): all interleavings for k <= 3 workers, <= 4 shards and every
//! per-shard outcome assignment. Checked in every state: no deadlock; in every
//! terminal state: Ok => every shard solved exactly once (or empty), a failing
//! shard => Err.
use std::collections::{HashMap, VecDeque};
use vh::proto::*;
use vh::rt::*;

fn explore(ctx: &mut Ctx, workers: usize, shards: usize, outcomes: Vec<Out>, prop_dead: &str, prop_term: &str) {
    let start = State::new(workers, shards, Some(outcomes.clone()));
    let mut seen: HashMap<State, (usize, Option<Ev>)> = HashMap::new(); // parent index, event
    let mut order: Vec<State> = vec![start.clone()];
    seen.insert(start, (0, None));
    let mut q: VecDeque<usize> = VecDeque::from([0]);
    let mut terminals = (0u64, 0u64);
    let path = |seen: &HashMap<State, (usize, Option<Ev>)>, order: &Vec<State>, mut i: usize| -> String {
        let mut evs = vec![];
        while let (p, Some(e)) = seen[&order[i]] {
            evs.push(format!("{e:?}"));
            i = p;
        }
        evs.reverse();
        evs.join(" ")
    };
    while let Some(i) = q.pop_front() {
        let s = order[i].clone();
        ctx.states += 1;
        if s.is_terminal() {
            if let Main::Ended(ok) = s.main {
                if ok {
                    terminals.0 += 1
                } else {
                    terminals.1 += 1
                }
            }
            if let Some(v) = s.terminal_violation() {
                ctx.violation(prop_term, format!("workers={workers} shards={shards} outcomes={outcomes:?}: {v}; schedule: {}", path(&seen, &order, i)));
            }
            continue;
        }
        let en = s.enabled();
        if en.is_empty() {
            ctx.violation(prop_dead, format!("workers={workers} shards={shards} outcomes={outcomes:?}: deadlock in state {s:?}; schedule: {}", path(&seen, &order, i)));
            continue;
        }
        for e in en {
            let n = s.apply(e).unwrap();
            ctx.transitions += 1;
            if !seen.contains_key(&n) {
                seen.insert(n.clone(), (i, Some(e)));
                order.push(n);
                q.push_back(order.len() - 1);
            }
        }
    }
    ctx.add("terminal_ok_states", terminals.0);
    ctx.add("terminal_err_states", terminals.1);
    ctx.outcome(terminals.0.min(1) * 2 + terminals.1.min(1));
}

fn main() {
    let mut ctx = Ctx::from_args();
    start_watchdog(600);
    let t = ctx.thorough();
    let maxw = 3;
    let maxs = if t { 5 } else { 4 };
    for workers in 1..=maxw {
        for shards in 1..=maxs {
            // outcome alphabet: empty shards only occur when there is a single shard (n = 0); see DESIGN.md §2.5
            let alpha: Vec<Out> = if shards == 1 { vec![Out::Ok, Out::Empty, Out::Dup, Out::Unsolvable] } else { vec![Out::Ok, Out::Dup, Out::Unsolvable] };
            let total = alpha.len().pow(shards as u32);
            for mut code in 0..total {
                let mut o = vec![];
                for _ in 0..shards {
                    o.push(alpha[code % alpha.len()]);
                    code /= alpha.len();
                }
                if !ctx.case(|| format!("par_solve-model workers={workers} shards={shards} outcomes={o:?}")) {
                    continue;
                }
                ctx.nontrivial();
                if ctx.samples.len() < 3 && shards >= 2 {
                    let mut s = State::new(workers, shards, Some(o.clone()));
                    let mut tr = vec![];
                    while let Some(e) = s.enabled().first().copied() {
                        tr.push(format!("{e:?}"));
                        s = s.apply(e).unwrap();
                    }
                    ctx.samples.push(format!("one complete model schedule (workers={workers}, shards={shards}, outcomes={o:?}): {}", tr.join(" ")));
                }
                explore(&mut ctx, workers, shards, o, "C17|VBuilder::par_solve(model)|deadlock", "C07|VBuilder::par_solve(model)|inconsistent-terminal-state");
            }
        }
    }
    // the latent hazard: an empty shard together with non-empty ones (unreachable through the
    // public API, reported as a counter, not as a violation)
    if ctx.case(|| "par_solve-model latent hazard: workers=1 shards=2 outcomes=[Empty, Ok]".to_string()) {
        let mut probe = Ctx::from_args();
        probe.out = None;
        explore(&mut probe, 1, 2, vec![Out::Empty, Out::Ok], "latent", "latent");
        ctx.add("latent_empty_shard_hazard_violations", probe.violations.values().map(|v| v.count).sum());
    }
    ctx.finish();
}

//! C15 — serialized structures answer identically after any way of loading
//! them back: serialize -> deserialize_full, deserialize_eps (zero-copy from a
//! byte buffer), store -> load_full / mmap / load_mmap / load_mem.
use dsi_progress_logger::no_logging;
use epserde::prelude::*;
use epserde::utils::AlignedCursor;
use sux::dict::elias_fano::{EfDict, EfSeq, EfSeqDict};
use sux::func::shard_edge::*;
use sux::prelude::*;
use sux::utils::FromIntoIterator;
use vh::rt::*;

macro_rules! roundtrip_full {
    ($ctx:expr, $dir:expr, $name:expr, $content:expr, $T:ty, $mk:expr, |$o:ident, $l:ident| $cmp:block) => {{
        let ctx: &mut Ctx = $ctx;
        let name: &str = $name;
        let content: &str = $content;
        if ctx.case(|| format!("{name} content={content} (full-copy loading paths only: the zero-copy form of this type does not implement the query traits)")) {
            if !content.starts_with("empty") {
                ctx.nontrivial();
            }
            let path = $dir.join(format!("ser-{}.bin", ctx.cur_idx()));
            let r = guard(|| -> anyhow::Result<Vec<&'static str>> {
                let $o: $T = $mk;
                let mut bad: Vec<&'static str> = vec![];
                let mut cur = <AlignedCursor>::new();
                $o.serialize(&mut cur)?;
                cur.set_position(0);
                {
                    let $l = <$T>::deserialize_full(&mut cur)?;
                    if !$cmp {
                        bad.push("deserialize_full");
                    }
                }
                $o.store(&path)?;
                {
                    let $l = <$T>::load_full(&path)?;
                    if !$cmp {
                        bad.push("load_full");
                    }
                }
                Ok(bad)
            });
            let _ = std::fs::remove_file(&path);
            match r {
                Outcome::Panic(m) => ctx.violation(&format!("C15|{name}|panic"), format!("content={content}: {m}")),
                Outcome::Ret(Err(e)) => ctx.violation(&format!("C15|{name}|load-error"), format!("content={content}: {e:#}")),
                Outcome::Ret(Ok(bad)) => {
                    for b in bad {
                        ctx.violation(&format!("C15|{name}|differs-after-{b}"), format!("content={content}: the loaded instance answers differently from the original"));
                    }
                }
            }
        }
    }};
}

macro_rules! roundtrip {
    ($ctx:expr, $dir:expr, $name:expr, $content:expr, $T:ty, $mk:expr, |$o:ident, $l:ident| $cmp:block) => {{
        let ctx: &mut Ctx = $ctx;
        let name: &str = $name;
        let content: &str = $content;
        if ctx.case(|| format!("{name} content={content} (6 loading paths)")) {
            if !content.starts_with("empty") {
                ctx.nontrivial();
            }
            let path = $dir.join(format!("ser-{}.bin", ctx.cur_idx()));
            let r = guard(|| -> anyhow::Result<Vec<&'static str>> {
                let $o: $T = $mk;
                let mut bad: Vec<&'static str> = vec![];
                let mut cur = <AlignedCursor>::new();
                $o.serialize(&mut cur)?;
                cur.set_position(0);
                {
                    let $l = <$T>::deserialize_full(&mut cur)?;
                    if !$cmp {
                        bad.push("deserialize_full");
                    }
                }
                {
                    let $l = <$T>::deserialize_eps(cur.as_bytes())?;
                    if !$cmp {
                        bad.push("deserialize_eps");
                    }
                }
                $o.store(&path)?;
                {
                    let $l = <$T>::load_full(&path)?;
                    if !$cmp {
                        bad.push("load_full");
                    }
                }
                {
                    let $l = <$T>::mmap(&path, Flags::empty())?;
                    if !$cmp {
                        bad.push("mmap");
                    }
                }
                {
                    let $l = <$T>::load_mmap(&path, Flags::empty())?;
                    if !$cmp {
                        bad.push("load_mmap");
                    }
                }
                {
                    let $l = <$T>::load_mem(&path)?;
                    if !$cmp {
                        bad.push("load_mem");
                    }
                }
                Ok(bad)
            });
            let _ = std::fs::remove_file(&path);
            match r {
                Outcome::Panic(m) => ctx.violation(&format!("C15|{name}|panic"), format!("content={content}: {m}")),
                Outcome::Ret(Err(e)) => ctx.violation(&format!("C15|{name}|load-error"), format!("content={content}: {e:#}")),
                Outcome::Ret(Ok(bad)) => {
                    for b in bad {
                        ctx.violation(&format!("C15|{name}|differs-after-{b}"), format!("content={content}: the loaded instance answers differently from the original"));
                    }
                }
            }
        }
    }};
}

fn bitvecs() -> Vec<(String, Vec<bool>)> {
    let mut v: Vec<(String, Vec<bool>)> = vec![("empty".into(), vec![]), ("singleton-1".into(), vec![true]), ("singleton-0".into(), vec![false])];
    for len in [63usize, 64, 65, 1000, 4097, 70_000] {
        v.push((format!("every-3rd({len})"), (0..len).map(|i| i % 3 == 0).collect()));
    }
    // sparse shapes at word granularity: runs of empty words of every parity before a non-empty one
    v.push(("ones at 0 and 200".into(), (0..256).map(|i| i == 0 || i == 200).collect()));
    for (period, phase) in [(2usize, 0usize), (2, 1), (3, 0), (3, 1), (3, 2), (4, 1), (4, 3), (5, 2), (7, 6)] {
        v.push((format!("one-per-word-class(words = {phase} mod {period}, 40 words)"), (0..40 * 64).map(|i| (i / 64) % period == phase && i % 64 == (i / 64) % 61).collect()));
    }
    // densities that drive the selection structures into each of their span classes (one in 8 .. one in 300),
    // at lengths whose word counts take both parities (so every inner array lands on 0 and on 8 mod 16)
    for gap in [8usize, 16, 20, 40, 64, 128, 300] {
        for len in [60_000usize, 100_064, 131_136 + 64] {
            v.push((format!("one in {gap} ({len} bits)"), (0..len).map(|i| i % gap == (gap / 3)).collect()));
        }
    }
    v.push(("sparse(200000, ones 70000 apart)".into(), (0..200_000).map(|i| i % 70_000 == 5).collect()));
    v.push(("dense-with-hole(140000)".into(), (0..140_000).map(|i| !(1000..70_000).contains(&i)).collect()));
    v
}

macro_rules! rank_cmp {
    ($o:ident, $l:ident, $len:expr) => {{
        let len: usize = $len;
        let step = if len > 5000 { 37 } else { 1 };
        $o.len() == $l.len() && $o.num_ones() == $l.num_ones() && (0..=len + 1).step_by(step).all(|p| $o.rank(p) == $l.rank(p) && $o.rank_zero(p) == $l.rank_zero(p))
    }};
}
macro_rules! sel_cmp {
    ($o:ident, $l:ident, $ones:expr) => {{
        let ones: usize = $ones;
        let step = if ones > 5000 { 31 } else { 1 };
        (0..=ones + 1).step_by(step).all(|r| $o.select(r) == $l.select(r))
    }};
}
macro_rules! selz_cmp {
    ($o:ident, $l:ident, $zeros:expr) => {{
        let zeros: usize = $zeros;
        let step = if zeros > 5000 { 31 } else { 1 };
        (0..=zeros + 1).step_by(step).all(|r| $o.select_zero(r) == $l.select_zero(r))
    }};
}

fn main() {
    let mut ctx = Ctx::from_args();
    start_watchdog(300);
    let t = ctx.thorough();
    let tmp = tempfile::tempdir().unwrap();
    let dir = tmp.path().to_path_buf();

    for (cname, bits) in bitvecs() {
        let n = bits.len();
        let ones = bits.iter().filter(|&&b| b).count();
        let zeros = n - ones;
        let mk = || -> BitVec { bits.iter().copied().collect() };
        // every read-only observation of a bit vector: random access, counting and the three iterators
        macro_rules! bv_cmp {
            ($o:ident, $l:ident) => {{
                $o.len() == $l.len()
                    && (0..n).step_by(if n > 5000 { 17 } else { 1 }).all(|i| $o.get(i) == $l.get(i))
                    && $o.count_ones() == $l.count_ones()
                    && $o.iter_ones().eq($l.iter_ones())
                    && $o.iter_zeros().eq($l.iter_zeros())
                    && $o.iter().eq($l.iter())
                    && $o.iter_ones().eq((0..n).filter(|&i| bits[i]))
            }};
        }
        roundtrip!(&mut ctx, dir, "BitVec<Vec>", &cname, BitVec, mk(), |o, l| { bv_cmp!(o, l) });
        roundtrip!(&mut ctx, dir, "BitVec<Box>", &cname, BitVec<Box<[usize]>>, mk().into(), |o, l| { bv_cmp!(o, l) });
        roundtrip!(&mut ctx, dir, "AddNumBits<BitVec>", &cname, AddNumBits<BitVec>, mk().into(), |o, l| { o.len() == l.len() && o.num_ones() == l.num_ones() && (0..n).step_by(97).all(|i| o[i] == l[i]) });
        roundtrip!(&mut ctx, dir, "Rank9", &cname, Rank9, Rank9::new(mk()), |o, l| { rank_cmp!(o, l, n) });
        roundtrip!(&mut ctx, dir, "RankSmall<2,9>", &cname, RankSmall<2, 9>, rank_small![0; mk()], |o, l| { rank_cmp!(o, l, n) });
        roundtrip!(&mut ctx, dir, "RankSmall<1,9>", &cname, RankSmall<1, 9>, rank_small![1; mk()], |o, l| { rank_cmp!(o, l, n) });
        roundtrip!(&mut ctx, dir, "RankSmall<1,10>", &cname, RankSmall<1, 10>, rank_small![2; mk()], |o, l| { rank_cmp!(o, l, n) });
        roundtrip!(&mut ctx, dir, "RankSmall<1,11>", &cname, RankSmall<1, 11>, rank_small![3; mk()], |o, l| { rank_cmp!(o, l, n) });
        roundtrip!(&mut ctx, dir, "RankSmall<3,13>", &cname, RankSmall<3, 13>, rank_small![4; mk()], |o, l| { rank_cmp!(o, l, n) });
        roundtrip!(&mut ctx, dir, "Select9<Rank9>", &cname, Select9, Select9::new(Rank9::new(mk())), |o, l| { rank_cmp!(o, l, n) && sel_cmp!(o, l, ones) });
        roundtrip!(&mut ctx, dir, "SelectAdapt<AddNumBits>", &cname, SelectAdapt<AddNumBits<BitVec>>, SelectAdapt::new(mk().into(), 3), |o, l| { sel_cmp!(o, l, ones) });
        roundtrip!(&mut ctx, dir, "SelectAdapt<AddNumBits> with_inv(2,1)", &cname, SelectAdapt<AddNumBits<BitVec>>, SelectAdapt::with_inv(mk().into(), 2, 1), |o, l| { sel_cmp!(o, l, ones) });
        roundtrip!(&mut ctx, dir, "SelectZeroAdapt<AddNumBits>", &cname, SelectZeroAdapt<AddNumBits<BitVec>>, SelectZeroAdapt::new(mk().into(), 3), |o, l| { selz_cmp!(o, l, zeros) });
        roundtrip!(&mut ctx, dir, "SelectZeroAdapt<SelectAdapt<Rank9>>", &cname, SelectZeroAdapt<SelectAdapt<Rank9>>, SelectZeroAdapt::new(SelectAdapt::new(Rank9::new(mk()), 3), 3), |o, l| { rank_cmp!(o, l, n) && sel_cmp!(o, l, ones) && selz_cmp!(o, l, zeros) });
        roundtrip!(&mut ctx, dir, "SelectZeroAdaptConst<SelectAdaptConst<AddNumBits>>", &cname, SelectZeroAdaptConst<SelectAdaptConst<AddNumBits<BitVec>>>, SelectZeroAdaptConst::<_, _>::new(SelectAdaptConst::<_, _>::new(mk().into())), |o, l| { sel_cmp!(o, l, ones) && selz_cmp!(o, l, zeros) });
        roundtrip!(&mut ctx, dir, "SelectAdaptConst<2,1><Rank9>", &cname, SelectAdaptConst<Rank9, Box<[usize]>, 2, 1>, SelectAdaptConst::<_, _, 2, 1>::new(Rank9::new(mk())), |o, l| { rank_cmp!(o, l, n) && sel_cmp!(o, l, ones) });
        // (SelectZeroSmall<SelectSmall<..>> does not implement the selection traits in its zero-copy
        // deserialized form - a compile-time limitation - so the two small selectors are checked separately)
        roundtrip_full!(&mut ctx, dir, "SelectZeroSmall<RankSmall<1,9>>", &cname, SelectZeroSmall<1, 9, RankSmall<1, 9>>, SelectZeroSmall::<1, 9, _>::new(rank_small![1; mk()]), |o, l| { rank_cmp!(o, l, n) && selz_cmp!(o, l, zeros) });
        roundtrip_full!(&mut ctx, dir, "SelectSmall<RankSmall<1,9>>", &cname, SelectSmall<1, 9, RankSmall<1, 9>>, SelectSmall::<1, 9, _>::new(rank_small![1; mk()]), |o, l| { rank_cmp!(o, l, n) && sel_cmp!(o, l, ones) });
        roundtrip_full!(&mut ctx, dir, "SelectSmall<RankSmall<3,13>>", &cname, SelectSmall<3, 13, RankSmall<3, 13>>, SelectSmall::<3, 13, _>::new(rank_small![4; mk()]), |o, l| { rank_cmp!(o, l, n) && sel_cmp!(o, l, ones) });
        roundtrip!(&mut ctx, dir, "SelectZeroAdapt<Select9<Rank9>>", &cname, SelectZeroAdapt<Select9>, SelectZeroAdapt::new(Select9::new(Rank9::new(mk())), 3), |o, l| { rank_cmp!(o, l, n) && sel_cmp!(o, l, ones) && selz_cmp!(o, l, zeros) });
    }

    // bit-field vectors
    macro_rules! bfv {
        ($W:ty, $widths:expr) => {
            for &w in $widths {
                for len in [0usize, 1, 7, 100] {
                    let mask: $W = if w == 0 { 0 } else { <$W>::MAX >> (<$W>::BITS as usize - w) };
                    let vals: Vec<$W> = (0..len).map(|i| (mix(i as u64) as $W) & mask).collect();
                    let mk = || {
                        let mut b = BitFieldVec::<$W>::new(w, len);
                        for (i, &v) in vals.iter().enumerate() {
                            b.set(i, v);
                        }
                        b
                    };
                    let cname = if len == 0 { format!("empty(width {w})") } else { format!("width={w} len={len}") };
                    roundtrip!(&mut ctx, dir, &format!("BitFieldVec<{}>", stringify!($W)), &cname, BitFieldVec<$W>, mk(), |o, l| { o.len() == l.len() && o.bit_width() == l.bit_width() && (0..len).all(|i| o.get(i) == l.get(i)) && o.iter().eq(l.iter()) && l.iter().eq(vals.iter().copied()) && (0..=len).step_by(3).all(|k| o.iter_from(k).eq(l.iter_from(k))) });
                    roundtrip!(&mut ctx, dir, &format!("BitFieldVec<{},Box>", stringify!($W)), &cname, BitFieldVec<$W, Box<[$W]>>, mk().into(), |o, l| { o.len() == l.len() && (0..len).all(|i| o.get(i) == l.get(i)) && o.iter().eq(l.iter()) && l.iter().eq(vals.iter().copied()) });
                }
            }
        };
    }
    bfv!(u8, &[0usize, 3, 8]);
    bfv!(u16, &[5usize, 16]);
    bfv!(u32, &[1usize, 17, 32]);
    bfv!(u64, &[13usize, 64]);
    bfv!(usize, &[0usize, 1, 33, 63, 64]);
    bfv!(u128, &[7usize, 65, 128]);

    // Elias-Fano
    let seqs: Vec<(String, Vec<usize>, usize)> = vec![
        ("empty".into(), vec![], 0),
        ("empty(u=1000)".into(), vec![], 1000),
        ("singleton".into(), vec![5], 5),
        ("dups [1,5,5,99] u=100".into(), vec![1, 5, 5, 99], 100),
        ("200 values step 37".into(), (0..200).map(|i| i * 37).collect(), 200 * 37),
        ("5000 values, two clusters".into(), (0..2500).chain((0..2500).map(|i| (1 << 40) + i * 3)).collect(), (1 << 40) + 7500),
        ("l=0 runs".into(), (0..300).map(|i| i / 100).collect(), 2),
    ];
    // clustered sequences of 64 consecutive sizes: the word counts of the lower and of the upper bits take both
    // parities, so each inner array lands on both 0 and 8 mod 16 in the stream; the gap leaves several empty
    // words in the upper bits, and the last element before the gap moves through the words
    let mut seqs = seqs;
    for n in 1000..1064usize {
        let head = n / 2 + n % 7;
        let sq: Vec<usize> = (0..head).map(|i| i * 3).chain((0..n - head).map(|i| 3_000_000 + i * 2)).collect();
        let u = *sq.last().unwrap() + n % 3;
        seqs.push((format!("{n} values, two clusters ({head} + {})", n - head), sq, u));
    }
    for (cname, s, u) in &seqs {
        let n = s.len();
        let mk = || {
            let mut b = EliasFanoBuilder::new(n, *u);
            for &x in s {
                b.push(x);
            }
            b
        };
        let qs: Vec<usize> = s.iter().flat_map(|&x| [x.wrapping_sub(1), x, x + 1]).chain([0, *u, u + 1, usize::MAX]).chain(s.windows(2).filter(|w| w[1] - w[0] > 1000).flat_map(|w| [w[0] + (w[1] - w[0]) / 2, w[0] + 500, w[1] - 500])).collect();
        roundtrip!(&mut ctx, dir, "EliasFano", cname, EliasFano, mk().build(), |o, l| { o.len() == l.len() && o.iter().eq(l.iter()) });
        roundtrip!(&mut ctx, dir, "EfSeq", cname, EfSeq, mk().build_with_seq(), |o, l| { o.len() == l.len() && (0..n).all(|i| o.get(i) == l.get(i)) && o.iter().eq(l.iter()) && (0..=n).step_by(7).all(|k| o.iter_from(k).eq(l.iter_from(k))) });
        roundtrip!(&mut ctx, dir, "EfDict", cname, EfDict, mk().build_with_dict(), |o, l| { o.len() == l.len() && qs.iter().all(|&q| o.index_of(q) == l.index_of(q)) });
        roundtrip!(&mut ctx, dir, "EfSeqDict", cname, EfSeqDict, mk().build_with_seq_and_dict(), |o, l| { o.len() == l.len() && (0..n).all(|i| o.get(i) == l.get(i)) && qs.iter().all(|&q| o.index_of(q) == l.index_of(q) && o.succ(q) == l.succ(q) && o.succ_strict(q) == l.succ_strict(q) && o.pred(q) == l.pred(q) && o.pred_strict(q) == l.pred_strict(q)) });
    }

    // rear-coded lists
    let lists: Vec<(String, Vec<String>)> = vec![
        ("empty".into(), vec![]),
        ("singleton-empty-string".into(), vec!["".into()]),
        ("sorted words".into(), (0..300).map(|i| format!("k{:03}{}", i / 3, ["", "x", "xy"][i % 3])).collect()),
        ("unsorted with long strings".into(), vec!["b".into(), "a".repeat(200), "a".repeat(129), "é".into(), "".into(), "a".into()]),
    ];
    for (cname, list) in &lists {
        for k in [1usize, 4, 8] {
            let mk = || {
                let mut b = RearCodedListBuilder::new(k);
                for s in list {
                    b.push(s);
                }
                b.build()
            };
            let probes: Vec<String> = list.iter().cloned().chain(["".to_string(), "zz".into(), "k0500".into(), "a".into()]).collect();
            roundtrip!(&mut ctx, dir, &format!("RearCodedList(k={k})"), cname, RearCodedList, mk(), |o, l| {
                o.len() == l.len() && (0..list.len()).all(|i| o.get(i) == l.get(i)) && o.iter().eq(l.iter()) && probes.iter().all(|p| o.index_of(p.as_str()) == l.index_of(p.as_str()) && o.contains(p.as_str()) == l.contains(p.as_str())) && (0..=list.len()).step_by(5).all(|j| o.iter_from(j).eq(l.iter_from(j)))
            });
        }
    }

    // shard/edge logics after set-up (zero-copy parameter structs)
    {
        let sigs: Vec<[u64; 2]> = (0..64u64).map(|i| [mix(i).rotate_left(i as u32), mix(i + 1000)]).chain([[0, 0], [u64::MAX, u64::MAX], [1 << 63, 1]]).collect();
        for n in [0usize, 1, 1000, 150_000, 5_000_000, 40_000_000] {
            macro_rules! se {
                ($name:expr, $E:ty, $S:ty, $mk:expr) => {
                    roundtrip!(&mut ctx, dir, $name, &format!("set up for {n} keys"), $E, {
                        fn setup<S, E: ShardEdge<S, 3>>(n: usize) -> E {
                            let mut e = E::default();
                            e.set_up_shards(n, 0.001);
                            let s = e.num_shards();
                            e.set_up_graphs(n, n.div_ceil(s));
                            e
                        }
                        setup::<$S, $E>(n)
                    }, |o, l| {
                        // (explicitly typed helpers: the loaded value may be the type itself, a reference or a MemCase)
                        fn geom<S, E: ShardEdge<S, 3>>(e: &E) -> (usize, usize, u32, usize) {
                            (e.num_vertices(), e.num_shards(), e.shard_high_bits(), e.num_sort_keys())
                        }
                        fn at<S: Copy, E: ShardEdge<S, 3>>(e: &E, s: S) -> ([usize; 3], usize, usize) {
                            (e.edge(s), e.sort_key(s), e.shard(s))
                        }
                        geom::<$S, $E>(&o) == geom::<$S, $E>(&l) && sigs.iter().all(|s| { let sg: $S = $mk(*s); at::<$S, $E>(&o, sg) == at::<$S, $E>(&l, sg) })
                    });
                };
            }
            se!("FuseLge3Shards", FuseLge3Shards, [u64; 2], |s: [u64; 2]| s);
            se!("FuseLge3FullSigs", FuseLge3FullSigs, [u64; 2], |s: [u64; 2]| s);
            se!("FuseLge3NoShards<[u64;2]>", FuseLge3NoShards, [u64; 2], |s: [u64; 2]| s);
            se!("FuseLge3NoShards<[u64;1]>", FuseLge3NoShards, [u64; 1], |s: [u64; 2]| [s[0]]);
            se!("Mwhc3Shards", Mwhc3Shards, [u64; 2], |s: [u64; 2]| s);
            se!("Mwhc3NoShards", Mwhc3NoShards, [u64; 2], |s: [u64; 2]| s);
        }
    }
    // static functions and filters
    let mut sizes: Vec<usize> = vec![0, 1, 10, 1000];
    if t {
        sizes.push(150_000);
    }
    for n in sizes {
        let cname = if n == 0 { "empty".to_string() } else { format!("{n} keys") };
        macro_rules! vf {
            ($name:expr, $W:ty, $D:ty, $S:ty, $E:ty) => {
                roundtrip!(&mut ctx, dir, $name, &cname, VFunc<usize, $W, $D, $S, $E>,
                    VBuilder::<$W, $D, $S, $E>::default().expected_num_keys(n).try_build_func(FromIntoIterator::from(0..n), FromIntoIterator::from((0..n).map(|i| (mix(i as u64) & 0x7F) as $W)), no_logging![]).unwrap(),
                    |o, l| { o.len() == l.len() && (0..n + 200).step_by(if n > 5000 { 13 } else { 1 }).all(|i| o.get(i) == l.get(i)) });
            };
        }
        vf!("VFunc<BitFieldVec<usize>,FuseLge3Shards>", usize, BitFieldVec<usize>, [u64; 2], FuseLge3Shards);
        vf!("VFunc<Box<[usize]>,FuseLge3Shards>", usize, Box<[usize]>, [u64; 2], FuseLge3Shards);
        vf!("VFunc<Box<[u8]>,[u64;1],FuseLge3NoShards>", u8, Box<[u8]>, [u64; 1], FuseLge3NoShards);
        vf!("VFunc<BitFieldVec<usize>,[u64;2],FuseLge3NoShards>", usize, BitFieldVec<usize>, [u64; 2], FuseLge3NoShards);
        vf!("VFunc<BitFieldVec<u16>,FuseLge3FullSigs>", u16, BitFieldVec<u16>, [u64; 2], FuseLge3FullSigs);
        if n != 2 {
            vf!("VFunc<Box<[usize]>,Mwhc3Shards>", usize, Box<[usize]>, [u64; 2], Mwhc3Shards);
            vf!("VFunc<BitFieldVec<usize>,Mwhc3NoShards>", usize, BitFieldVec<usize>, [u64; 2], Mwhc3NoShards);
        }
        roundtrip!(&mut ctx, dir, "VFilter<BitFieldVec<usize>,FuseLge3Shards>(9 bits)", &cname, VFilter<usize, VFunc<usize, usize, BitFieldVec<usize>>>,
            VBuilder::<usize, BitFieldVec<usize>>::default().expected_num_keys(n).try_build_filter(FromIntoIterator::from(0..n), 9, no_logging![]).unwrap(),
            |o, l| { o.len() == l.len() && o.hash_bits() == l.hash_bits() && (0..2 * n + 500).step_by(if n > 5000 { 13 } else { 1 }).all(|i| o.contains(i) == l.contains(i)) });
        roundtrip!(&mut ctx, dir, "VFilter<Box<[u8]>,[u64;1],FuseLge3NoShards>", &cname, VFilter<u8, VFunc<usize, u8, Box<[u8]>, [u64; 1], FuseLge3NoShards>>,
            VBuilder::<u8, Box<[u8]>, [u64; 1], FuseLge3NoShards>::default().expected_num_keys(n).try_build_filter(FromIntoIterator::from(0..n), no_logging![]).unwrap(),
            |o, l| { o.len() == l.len() && (0..2 * n + 500).step_by(if n > 5000 { 13 } else { 1 }).all(|i| o.contains(i) == l.contains(i)) });
    }
    ctx.finish();
}

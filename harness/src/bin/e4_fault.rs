//! C17 — a failed build reports an error: exhaustive enumeration of fault
//! positions (every (pass, index) of the key and value sources, every rewind)
//! and of duplicate-key placements, on the real builders.
use dsi_progress_logger::no_logging;
use lender::*;
use std::io;
use std::sync::{Arc, Mutex};
use sux::func::shard_edge::*;
use sux::prelude::*;
use sux::utils::RewindableIoLender;
use vh::rt::*;

#[derive(Default, Debug, Clone)]
struct Stats {
    /// number of `next` calls per pass
    reads: Vec<usize>,
    rewinds: usize,
    fault_delivered: bool,
}

#[derive(Clone, Copy, Debug, PartialEq)]
enum Fault {
    None,
    /// `next` returns an error at (pass, index); index == len is the end-of-input call
    Next(usize, usize),
    /// `rewind` fails when leaving pass p
    Rewind(usize),
}

struct FaultyLender<T> {
    items: Arc<Vec<T>>,
    pos: usize,
    pass: usize,
    fault: Fault,
    marker: &'static str,
    stats: Arc<Mutex<Stats>>,
}

impl<T> FaultyLender<T> {
    fn new(items: Arc<Vec<T>>, fault: Fault, marker: &'static str) -> (Self, Arc<Mutex<Stats>>) {
        let stats = Arc::new(Mutex::new(Stats { reads: vec![0], ..Default::default() }));
        (FaultyLender { items, pos: 0, pass: 0, fault, marker, stats: stats.clone() }, stats)
    }
}

impl<'lend, T> Lending<'lend> for FaultyLender<T> {
    type Lend = Result<&'lend T, io::Error>;
}

impl<T> Lender for FaultyLender<T> {
    fn next(&mut self) -> Option<Lend<'_, Self>> {
        let mut st = self.stats.lock().unwrap();
        st.reads[self.pass] += 1;
        if self.fault == Fault::Next(self.pass, self.pos) {
            st.fault_delivered = true;
            return Some(Err(io::Error::other(self.marker)));
        }
        drop(st);
        let r = self.items.get(self.pos);
        if r.is_some() {
            self.pos += 1;
        }
        r.map(Ok)
    }
}

impl<T> RewindableIoLender<T> for FaultyLender<T> {
    type Error = io::Error;
    fn rewind(mut self) -> Result<Self, io::Error> {
        let mut st = self.stats.lock().unwrap();
        st.rewinds += 1;
        if self.fault == Fault::Rewind(self.pass) {
            st.fault_delivered = true;
            return Err(io::Error::other(self.marker));
        }
        st.reads.push(0);
        drop(st);
        self.pass += 1;
        self.pos = 0;
        Ok(self)
    }
}

#[derive(Clone, Copy, Debug, PartialEq)]
enum Kind {
    FuncShards,
    FuncShardsOffline,
    FuncNoShards1,
    FilterShards,
    FilterShardsOffline,
    FuncBoxFullSigs,
}
const KINDS: [Kind; 6] = [Kind::FuncShards, Kind::FuncShardsOffline, Kind::FuncNoShards1, Kind::FilterShards, Kind::FilterShardsOffline, Kind::FuncBoxFullSigs];

struct Res {
    /// Ok(number of wrong keys) or Err(error chain text)
    out: Result<usize, String>,
    kstats: Stats,
    vstats: Stats,
}

fn build(kind: Kind, keys: &Arc<Vec<usize>>, vals: &Arc<Vec<usize>>, kf: Fault, vf: Fault, check_dups: bool, threads: usize) -> Res {
    let (kl, ks) = FaultyLender::new(keys.clone(), kf, "INJECTED-KEY-SOURCE-FAULT");
    let (vl, vs) = FaultyLender::new(vals.clone(), vf, "INJECTED-VALUE-SOURCE-FAULT");
    let n = keys.len();
    let chk = |get: &dyn Fn(usize) -> usize, len: usize| -> usize { (0..n).filter(|&i| get(keys[i]) != vals[i]).count() + usize::from(len != n) };
    let chkf = |has: &dyn Fn(usize) -> bool, len: usize| -> usize { (0..n).filter(|&i| !has(keys[i])).count() + usize::from(len != n) };
    let out: Result<usize, String> = match kind {
        Kind::FuncShards | Kind::FuncShardsOffline => VBuilder::<usize, BitFieldVec<usize>>::default()
            .expected_num_keys(n)
            .offline(kind == Kind::FuncShardsOffline)
            .check_dups(check_dups)
            .max_num_threads(threads)
            .try_build_func(kl, vl, no_logging![])
            .map(|f| chk(&|k| f.get(k), f.len()))
            .map_err(|e| format!("{e:#}")),
        Kind::FuncNoShards1 => VBuilder::<usize, Box<[usize]>, [u64; 1], FuseLge3NoShards>::default()
            .expected_num_keys(n)
            .check_dups(check_dups)
            .max_num_threads(threads)
            .try_build_func(kl, vl, no_logging![])
            .map(|f| chk(&|k| f.get(k), f.len()))
            .map_err(|e| format!("{e:#}")),
        Kind::FuncBoxFullSigs => VBuilder::<usize, Box<[usize]>, [u64; 2], FuseLge3FullSigs>::default()
            .check_dups(check_dups)
            .max_num_threads(threads)
            .try_build_func(kl, vl, no_logging![])
            .map(|f| chk(&|k| f.get(k), f.len()))
            .map_err(|e| format!("{e:#}")),
        Kind::FilterShards | Kind::FilterShardsOffline => VBuilder::<usize, BitFieldVec<usize>>::default()
            .expected_num_keys(n)
            .offline(kind == Kind::FilterShardsOffline)
            .check_dups(check_dups)
            .max_num_threads(threads)
            .try_build_filter(kl, 9, no_logging![])
            .map(|f| chkf(&|k| f.contains(k), f.len()))
            .map_err(|e| format!("{e:#}")),
    };
    let kstats = ks.lock().unwrap().clone();
    let vstats = vs.lock().unwrap().clone();
    Res { out, kstats, vstats }
}

fn is_filter(k: Kind) -> bool {
    matches!(k, Kind::FilterShards | Kind::FilterShardsOffline)
}

fn io_faults(ctx: &mut Ctx, t: bool) {
    let sizes: &[usize] = if t { &[0, 1, 2, 5, 12, 16, 40] } else { &[0, 1, 2, 5, 16] };
    for &n in sizes {
        let keys: Arc<Vec<usize>> = Arc::new((0..n).map(|i| i * 3 + 7).collect());
        let vals: Arc<Vec<usize>> = Arc::new((0..n).map(|i| (mix(i as u64) & 0xFF) as usize).collect());
        for kind in KINDS {
            // fault-free reference run: how many passes does the build perform, and is it right
            if !ctx.common_case(|| format!("VBuilder::<fault-free reference build> kind={kind:?} n={n}")) {
                continue;
            }
            let r0 = match guard(|| build(kind, &keys, &vals, Fault::None, Fault::None, false, 2)) {
                Outcome::Ret(r) => r,
                Outcome::Panic(m) => {
                    ctx.violation("C17|VBuilder::<fault-free-build>|panic", format!("kind={kind:?} n={n}: {m}"));
                    continue;
                }
            };
            if r0.out != Ok(0) {
                ctx.violation("C17|VBuilder::<fault-free-build>|wrong-result", format!("kind={kind:?} n={n}: {:?}", r0.out));
                continue;
            }
            let passes = r0.kstats.reads.len();
            ctx.add("passes_of_reference_builds", passes as u64);
            let maxp = passes.min(if t { 8 } else { 4 });
            // which passes to fault: the first maxp and the last one
            let mut ps: Vec<usize> = (0..maxp).collect();
            if passes > maxp {
                ps.push(passes - 1);
            }
            let mut faults: Vec<(Fault, Fault, String)> = vec![];
            for &p in &ps {
                for i in 0..=n {
                    faults.push((Fault::Next(p, i), Fault::None, format!("key source fails at pass {p} index {i}")));
                    if !is_filter(kind) && i < n {
                        faults.push((Fault::None, Fault::Next(p, i), format!("value source fails at pass {p} index {i}")));
                    }
                }
                if p + 1 < passes {
                    faults.push((Fault::Rewind(p), Fault::None, format!("key source cannot be rewound after pass {p}")));
                    if !is_filter(kind) {
                        faults.push((Fault::None, Fault::Rewind(p), format!("value source cannot be rewound after pass {p}")));
                    }
                }
            }
            // pairs: a key fault and a value rewind fault in the same build
            if !is_filter(kind) && passes >= 2 {
                faults.push((Fault::Next(1, n / 2), Fault::Rewind(0), "value rewind fails after pass 0 and key source fails at pass 1".into()));
            }
            for (kf, vf, what) in faults {
                if !ctx.case(|| format!("VBuilder::try_build kind={kind:?} n={n} passes={passes} fault: {what}")) {
                    continue;
                }
                if n >= 2 {
                    ctx.nontrivial();
                }
                match guard(|| build(kind, &keys, &vals, kf, vf, false, 2)) {
                    Outcome::Panic(m) => ctx.violation("C17|VBuilder::try_build|panic-on-source-error", format!("kind={kind:?} n={n} {what}: {m}")),
                    Outcome::Ret(r) => {
                        let delivered = r.kstats.fault_delivered || r.vstats.fault_delivered;
                        ctx.count(if delivered { "faults_delivered" } else { "faults_not_reached" });
                        match (&r.out, delivered) {
                            (Ok(0), false) => {}
                            (Ok(w), false) => ctx.violation("C17|VBuilder::try_build|wrong-function", format!("kind={kind:?} n={n} {what}: fault never reached, but {w} keys are wrong")),
                            (Ok(w), true) => ctx.violation("C17|VBuilder::try_build|ok-after-source-error", format!("kind={kind:?} n={n} {what}: the source reported an error but the build returned Ok ({w} wrong keys)")),
                            (Err(e), true) => {
                                if !e.contains("INJECTED-") {
                                    ctx.violation("C17|VBuilder::try_build|source-error-not-returned", format!("kind={kind:?} n={n} {what}: the build failed with a different error: {e}"));
                                }
                            }
                            (Err(e), false) => ctx.violation("C17|VBuilder::try_build|spurious-error", format!("kind={kind:?} n={n} {what}: no fault was delivered but the build failed: {e}")),
                        }
                    }
                }
            }
        }
    }
}

/// A seekable byte source that fails a `read` exactly at byte `offset` of pass `pass`
/// (a pass ends when the reader is sought back to 0).
struct FaultyReader {
    data: Arc<Vec<u8>>,
    pos: usize,
    pass: usize,
    fail_at: Option<(usize, usize)>,
    delivered: Arc<Mutex<(bool, usize)>>, // (fault delivered, passes started)
}

impl io::Read for FaultyReader {
    fn read(&mut self, buf: &mut [u8]) -> io::Result<usize> {
        let mut end = (self.pos + buf.len()).min(self.data.len());
        if let Some((p, off)) = self.fail_at {
            if p == self.pass {
                if self.pos == off {
                    self.delivered.lock().unwrap().0 = true;
                    return Err(io::Error::other("INJECTED-READER-FAULT"));
                }
                if self.pos < off && off < end {
                    end = off; // short read, so that the next read starts exactly at the fault offset
                }
            }
        }
        let n = end - self.pos;
        buf[..n].copy_from_slice(&self.data[self.pos..end]);
        self.pos = end;
        Ok(n)
    }
}

impl io::Seek for FaultyReader {
    fn seek(&mut self, to: io::SeekFrom) -> io::Result<u64> {
        match to {
            io::SeekFrom::Start(0) => {
                if self.fail_at == Some((self.pass, usize::MAX)) {
                    // the rewind after this pass fails
                    self.delivered.lock().unwrap().0 = true;
                    return Err(io::Error::other("INJECTED-READER-SEEK-FAULT"));
                }
                self.pos = 0;
                self.pass += 1;
                self.delivered.lock().unwrap().1 += 1;
                Ok(0)
            }
            io::SeekFrom::Current(0) => Ok(self.pos as u64),
            _ => Err(io::Error::other("unsupported seek")),
        }
    }
}

/// Keys read as lines through the crate's own LineLender over a reader that fails at every byte offset
/// (in particular exactly at line boundaries and at end of input) of every pass.
fn line_source_faults(ctx: &mut Ctx, t: bool) {
    use sux::utils::LineLender;
    let sizes: &[usize] = if t { &[1, 2, 5, 16] } else { &[1, 2, 5] };
    for &n in sizes {
        let keys: Vec<String> = (0..n).map(|i| format!("k{i}")).collect();
        let text: Arc<Vec<u8>> = Arc::new(keys.iter().flat_map(|k| k.bytes().chain([b'\n'])).collect());
        let vals: Arc<Vec<usize>> = Arc::new((0..n).map(|i| i % 7).collect());
        // builder seed 0: the first attempt succeeds for these key sets; seed 5: two failed attempts first,
        // so the reader is sought back twice (read faults in later passes and seek faults become reachable)
        for (filter, bseed, src) in [(false, 0u64, 0usize), (true, 0, 0), (false, 5, 0), (true, 5, 0), (false, 5, 1), (true, 5, 1), (false, 0, 1), (false, 5, 2), (true, 5, 2), (false, 0, 2)] {
            // src: 0 = LineLender, 1 = GzipLineLender, 2 = ZstdLineLender (the reader then serves the compressed
            // bytes, and the fault offsets are offsets into them)
            let srcname = ["LineLender", "GzipLineLender", "ZstdLineLender"][src];
            let text: Arc<Vec<u8>> = match src {
                0 => text.clone(),
                1 => {
                    use std::io::Write;
                    let mut e = flate2::write::GzEncoder::new(Vec::new(), flate2::Compression::default());
                    e.write_all(&text).unwrap();
                    Arc::new(e.finish().unwrap())
                }
                _ => Arc::new(zstd::encode_all(&text[..], 3).unwrap()),
            };
            let text = &text;
            let run = |fail_at: Option<(usize, usize)>| -> (Result<usize, String>, bool, usize) {
                let st = Arc::new(Mutex::new((false, 1usize)));
                let rd = FaultyReader { data: text.clone(), pos: 0, pass: 0, fail_at, delivered: st.clone() };
                macro_rules! go {
                    ($kl:expr) => {{
                        let kl = $kl;
                        if filter {
                            VBuilder::<usize, BitFieldVec<usize>>::default()
                                .seed(bseed)
                                .expected_num_keys(n)
                                .try_build_filter::<str>(kl, 9, no_logging![])
                                .map(|f| keys.iter().filter(|k| !f.contains(k.as_str())).count() + usize::from(f.len() != n))
                                .map_err(|e| format!("{e:#}"))
                        } else {
                            let (vl, _) = FaultyLender::new(vals.clone(), Fault::None, "unused");
                            VBuilder::<usize, BitFieldVec<usize>>::default()
                                .seed(bseed)
                                .expected_num_keys(n)
                                .try_build_func::<str>(kl, vl, no_logging![])
                                .map(|f| (0..n).filter(|&i| f.get(keys[i].as_str()) != vals[i]).count() + usize::from(f.len() != n))
                                .map_err(|e| format!("{e:#}"))
                        }
                    }};
                }
                let out: Result<usize, String> = match src {
                    0 => go!(LineLender::new(io::BufReader::with_capacity(16, rd))),
                    1 => match sux::utils::GzipLineLender::new(rd) {
                        Ok(kl) => go!(kl),
                        Err(e) => Err(format!("{e:#}")),
                    },
                    _ => match sux::utils::ZstdLineLender::new(rd) {
                        Ok(kl) => go!(kl),
                        Err(e) => Err(format!("{e:#}")),
                    },
                };
                let g = st.lock().unwrap();
                (out, g.0, g.1)
            };
            if !ctx.common_case(|| format!("VBuilder::<fault-free reference build over {srcname}> filter={filter} n={n} builder_seed={bseed}")) {
                continue;
            }
            let (r0, _, passes) = match guard(|| run(None)) {
                Outcome::Ret(x) => x,
                Outcome::Panic(m) => {
                    ctx.violation("C17|VBuilder::<fault-free-build>|panic", format!("LineLender source n={n}: {m}"));
                    continue;
                }
            };
            if r0 != Ok(0) {
                ctx.violation("C17|VBuilder::<fault-free-build>|wrong-result", format!("LineLender source n={n} filter={filter}: {r0:?}"));
                continue;
            }
            let mut ps: Vec<usize> = (0..passes.min(if t { 6 } else { 3 })).collect();
            if !ps.contains(&(passes - 1)) {
                ps.push(passes - 1);
            }
            for p in ps {
                // offsets 0..=len are read faults; usize::MAX stands for "the seek that rewinds after pass p fails"
                for off in (0..=text.len()).chain([usize::MAX]) {
                    if off == usize::MAX && p + 1 >= passes {
                        continue; // no rewind after the last pass
                    }
                    let boundary = off >= text.len() || off == 0 || text[off - 1] == b'\n';
                    if !ctx.case(|| format!("VBuilder::try_build keys through {srcname} filter={filter} n={n} builder_seed={bseed} passes={passes} fault: the reader fails at byte {off} of pass {p} ({})", if off == usize::MAX { "= the seek back to 0 after this pass" } else if boundary { "a line boundary" } else { "inside a line" })) {
                        continue;
                    }
                    ctx.nontrivial();
                    match guard(|| run(Some((p, off)))) {
                        Outcome::Panic(m) => ctx.violation("C17|LineLender->VBuilder::try_build|panic-on-source-error", format!("n={n} byte {off} pass {p}: {m}")),
                        Outcome::Ret((out, delivered, _)) => {
                            ctx.count(if delivered { "reader_faults_delivered" } else { "reader_faults_not_reached" });
                            match (&out, delivered) {
                                (Ok(0), false) => {}
                                (Ok(w), false) => ctx.violation("C17|LineLender->VBuilder::try_build|wrong-function", format!("n={n} byte {off} pass {p}: fault never reached but {w} keys wrong")),
                                (Ok(w), true) => ctx.violation(
                                    "C17|LineLender->VBuilder::try_build|ok-after-source-error",
                                    format!("n={n} filter={filter}: the reader failed at byte {off} of pass {p} ({}) but the build returned Ok ({w} keys wrong or missing)", if boundary { "a line boundary" } else { "inside a line" }),
                                ),
                                (Err(e), true) => {
                                    if !e.contains("INJECTED-") {
                                        ctx.violation("C17|LineLender->VBuilder::try_build|source-error-not-returned", format!("n={n} byte {off} pass {p}: different error: {e}"));
                                    }
                                }
                                (Err(e), false) => ctx.violation("C17|LineLender->VBuilder::try_build|spurious-error", format!("n={n} byte {off} pass {p}: {e}")),
                            }
                        }
                    }
                }
            }
        }
    }
}

fn duplicates(ctx: &mut Ctx, t: bool) {
    // 200 000 keys = 4 shards: with 1 or 2 solver threads a failing attempt leaves shards unconsumed, so the
    // early-exit path of the solver protocol (feeder blocked on a full channel) is exercised
    let mut sizes: Vec<usize> = vec![2, 3, 5, 12, 200_000];
    if t {
        sizes.extend([40, 10_000, 120_000, 800_000]);
    }
    for n in sizes {
        // placements: every pair (i, j) for small n, a few for large n
        let mut placements: Vec<Vec<usize>> = vec![];
        if n <= 12 {
            for i in 0..n {
                for j in i + 1..n {
                    placements.push(vec![i, j]);
                }
            }
            if n >= 3 {
                placements.push(vec![0, 1, 2]);
                placements.push(vec![0, n / 2, n - 1]);
            }
            placements.push((0..n).collect());
        } else {
            placements.extend([vec![0, 1], vec![0, n - 1], vec![n / 2, n / 2 + 1], vec![n - 2, n - 1], vec![7, n / 3, n - 5]]);
            if !t {
                placements.truncate(2);
            }
        }
        for pl in placements {
            for kind in KINDS {
                if n > 1000 && !matches!(kind, Kind::FuncShards | Kind::FilterShards) {
                    continue;
                }
                for threads in [1usize, 2, 3, 8] {
                    if (n <= 12 && (threads == 2 || threads == 8)) || (n > 12 && n < 200_000 && threads != 3) || (n == 200_000 && threads > 2) || (n == 800_000 && threads != 8 && threads != 2) {
                        continue;
                    }
                    if !ctx.case(|| format!("VBuilder::try_build kind={kind:?} n={n} duplicate keys at positions {:?} check_dups=true threads={threads}", &pl[..pl.len().min(6)])) {
                        continue;
                    }
                    ctx.nontrivial();
                    let mut k: Vec<usize> = (0..n).map(|i| i * 3 + 7).collect();
                    for &p in &pl[1..] {
                        k[p] = k[pl[0]];
                    }
                    let keys = Arc::new(k);
                    let vals: Arc<Vec<usize>> = Arc::new((0..n).map(|i| i % 5).collect());
                    match guard(|| build(kind, &keys, &vals, Fault::None, Fault::None, true, threads)) {
                        Outcome::Panic(m) => ctx.violation("C17|VBuilder::try_build|panic-on-duplicate-keys", format!("kind={kind:?} n={n} dup at {pl:?}: {m}")),
                        Outcome::Ret(r) => {
                            let passes = r.kstats.reads.len();
                            ctx.add("max_passes_with_duplicates", 0);
                            match &r.out {
                                Ok(w) => ctx.violation("C17|VBuilder::try_build|ok-with-duplicate-keys", format!("kind={kind:?} n={n} dup at {pl:?}: returned Ok ({w} wrong keys) after {passes} passes")),
                                Err(e) => {
                                    if !e.contains("Duplicate key") {
                                        ctx.violation("C17|VBuilder::try_build|wrong-error-for-duplicate-keys", format!("kind={kind:?} n={n} dup at {pl:?}: {e}"));
                                    }
                                    // (above the sharding threshold other transient failures - a too large shard, an
                                    // unsolvable shard - legitimately add attempts: only the lower bound is fixed there)
                                    if passes < 4 || (n < 100_000 && passes != 4) {
                                        ctx.violation("C17|VBuilder::try_build|attempts-not-bounded-as-documented", format!("kind={kind:?} n={n} dup at {pl:?}: DuplicateKey after {passes} signature passes (4 expected)"));
                                    }
                                }
                            }
                        }
                    }
                }
            }
        }
    }
}

/// Many copies of one key in a sharded build: their shard alone exceeds the 1 % slack the builder allows
/// the largest shard, so every attempt ends with "maximum shard too big" before duplicates are looked for.
/// Run in a child process with a time limit, so that this input gets a finding key of its own.
fn heavy_duplicates(ctx: &mut Ctx) {
    for (kind, threads) in [("func", 8usize), ("filter", 2)] {
        let (n, copies) = (200_000usize, 3000usize);
        if !ctx.case(|| format!("VBuilder::try_build {kind} n={n} with {copies} copies of one key, check_dups=true threads={threads} (child process, 12 s limit)")) {
            continue;
        }
        ctx.nontrivial();
        let mut child = std::process::Command::new(std::env::current_exe().unwrap())
            .args(["--opt", &format!("heavyprobe={kind}:{n}:{copies}:{threads}")])
            .stdout(std::process::Stdio::null())
            .stderr(std::process::Stdio::null())
            .spawn()
            .expect("cannot spawn the probe");
        let t0 = std::time::Instant::now();
        let mut status = None;
        while t0.elapsed().as_secs_f64() < 12.0 {
            if let Some(st) = child.try_wait().unwrap() {
                status = Some(st);
                break;
            }
            std::thread::sleep(std::time::Duration::from_millis(50));
        }
        match status {
            None => {
                let _ = child.kill();
                let _ = child.wait();
                ctx.violation(
                    &format!("C17|VBuilder::try_build|nonterminating-build-{copies}-copies-of-one-key-among-{n}"),
                    format!("{kind}, {threads} threads: no result within 12 s (every attempt is rejected because the shard holding the copies is more than 1 % above the average, and that rejection is retried without bound before duplicates are ever looked for)"),
                );
            }
            // the child exits 0 if the build returned Err(DuplicateKey), 3 if it returned anything else
            Some(st) if st.code() == Some(3) => ctx.violation("C17|VBuilder::try_build|ok-with-duplicate-keys", format!("{kind} n={n} with {copies} copies of one key: the build did not report the duplicates")),
            Some(_) => {}
        }
    }
}

/// Duplicates whose second copy is the last pair written to an on-disk bucket that is split into several shards
/// and holds an exact multiple of the splitter's 1024-pair read buffer (and one pair more, and one less).
fn offline_split_duplicates(ctx: &mut Ctx) {
    use sux::utils::FromIntoIterator;
    for n in [98 * 1024usize, 98 * 1024 + 1, 98 * 1024 - 1, 100 * 1024] {
        for filter in [false, true] {
            for lb in [0u32, 1] {
                if !ctx.case(|| format!("VBuilder::try_build offline log2_buckets={lb} n={n} filter={filter}: the last key repeats the first, check_dups=true")) {
                    continue;
                }
                ctx.nontrivial();
                let keys: Vec<usize> = (0..n - 1).map(|i| i * 3 + 7).chain([7]).collect();
                let r = guard(|| -> Result<usize, String> {
                    let b = VBuilder::<usize, BitFieldVec<usize>>::default().offline(true).log2_buckets(lb).check_dups(true).max_num_threads(2);
                    if filter {
                        b.try_build_filter(FromIntoIterator::from(keys.clone()), 9, no_logging![]).map(|f| f.len()).map_err(|e| format!("{e:#}"))
                    } else {
                        b.try_build_func(FromIntoIterator::from(keys.clone()), FromIntoIterator::from((0..n).map(|i| i % 5)), no_logging![]).map(|f| f.len()).map_err(|e| format!("{e:#}"))
                    }
                });
                match r {
                    Outcome::Panic(m) => ctx.violation("C17|VBuilder::try_build|panic-on-duplicate-keys", format!("offline log2_buckets={lb} n={n} filter={filter}: {m}")),
                    Outcome::Ret(Ok(len)) => ctx.violation("C17|VBuilder::try_build|ok-with-duplicate-keys", format!("offline log2_buckets={lb} n={n} filter={filter}: returned Ok (len {len}) although the last key repeats the first")),
                    Outcome::Ret(Err(e)) => {
                        if !e.contains("Duplicate key") {
                            ctx.violation("C17|VBuilder::try_build|wrong-error-for-duplicate-keys", format!("offline log2_buckets={lb} n={n} filter={filter}: {e}"));
                        }
                    }
                }
            }
        }
    }
}

fn heavy_probe_child(spec: &str) -> ! {
    let p: Vec<&str> = spec.split(':').collect();
    let (kind, n, copies, threads): (&str, usize, usize, usize) = (p[0], p[1].parse().unwrap(), p[2].parse().unwrap(), p[3].parse().unwrap());
    let mut k: Vec<usize> = (0..n).map(|i| i * 3 + 7).collect();
    for i in 1..copies {
        k[i] = k[0];
    }
    let keys = Arc::new(k);
    let vals: Arc<Vec<usize>> = Arc::new((0..n).map(|i| i % 5).collect());
    let r = build(if kind == "func" { Kind::FuncShards } else { Kind::FilterShards }, &keys, &vals, Fault::None, Fault::None, true, threads);
    std::process::exit(match r.out {
        Err(e) if e.contains("Duplicate key") => 0,
        _ => 3,
    })
}

fn main() {
    let mut ctx = Ctx::from_args();
    if let Some(spec) = ctx.opt("heavyprobe") {
        let spec = spec.to_string();
        heavy_probe_child(&spec);
    }
    start_watchdog(60);
    let t = ctx.thorough();
    io_faults(&mut ctx, t);
    line_source_faults(&mut ctx, t);
    duplicates(&mut ctx, t);
    heavy_duplicates(&mut ctx);
    offline_split_duplicates(&mut ctx);
    ctx.finish();
}

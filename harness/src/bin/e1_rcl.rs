//! C09 — rear-coded lists against `Vec<String>`: all lists over a string
//! alphabet up to a length bound, every block size, every index / start
//! position / probe string.
use lender::*;
use sux::prelude::*;
use sux::traits::IntoIteratorFrom;
use vh::rt::*;

fn show(s: &str) -> String {
    if s.len() > 8 {
        format!("{}^{}{}", &s[..1], s.len() - if s.ends_with(['b', 'c']) { 1 } else { 0 }, if s.ends_with(['b', 'c']) { &s[s.len() - 1..] } else { "" })
    } else {
        format!("{s:?}")
    }
}

fn check(ctx: &mut Ctx, list: &[&str], k: usize, probes: &[String]) {
    let n = list.len();
    let key = |site: &str, class: &str| format!("C09|RearCodedList::{site}|{class}");
    let built = guard(|| {
        let mut b = RearCodedListBuilder::new(k);
        for s in list {
            b.push(s);
        }
        if b.len() != n {
            return Err(format!("builder len() = {} expected {n}", b.len()));
        }
        Ok(b.build())
    });
    let r = match built {
        Outcome::Ret(Ok(r)) => r,
        Outcome::Ret(Err(e)) => {
            ctx.violation(&key("builder", "wrong-answer"), e);
            return;
        }
        Outcome::Panic(m) => {
            ctx.violation(&key("builder", "panic"), m);
            return;
        }
    };
    macro_rules! q {
        ($site:expr, $body:expr) => {{
            match guard(|| -> Result<(), String> { $body }) {
                Outcome::Ret(Ok(())) => {}
                Outcome::Ret(Err(e)) => ctx.violation(&key($site, "wrong-answer"), e),
                Outcome::Panic(m) => ctx.violation(&key($site, "panic"), m),
            }
        }};
    }
    q!("len", {
        if r.len() != n || IndexedSeq::len(&r) != n || r.is_empty() != (n == 0) {
            return Err(format!("len() = {} expected {n}", r.len()));
        }
        Ok(())
    });
    q!("get", {
        for i in 0..n {
            let g = r.get(i);
            if g != list[i] {
                return Err(format!("get({i}) = {} expected {}", show(&g), show(list[i])));
            }
            let mut v = vec![1, 2, 3];
            r.get_in_place(i, &mut v);
            if v != list[i].as_bytes() {
                return Err(format!("get_in_place({i}) wrong"));
            }
        }
        Ok(())
    });
    q!("iter", {
        let mut it = r.iter();
        for j in 0..=n {
            if it.len() != n - j || it.size_hint() != (n - j, Some(n - j)) {
                return Err(format!("iter(): len() = {} after {j} items", it.len()));
            }
            match it.next() {
                Some(x) => {
                    if j >= n || x != list[j] {
                        return Err(format!("iter(): item {j} = {} wrong", show(&x)));
                    }
                }
                None => {
                    if j != n {
                        return Err(format!("iter() ended after {j} items"));
                    }
                }
            }
        }
        let v: Vec<String> = (&r).into_iter().collect();
        if v.iter().map(|s| s.as_str()).collect::<Vec<_>>() != list {
            return Err("(&r).into_iter() differs".into());
        }
        if n <= 4 || list.iter().any(|s| s.len() > 100) {
            // the iterator protocol beyond a plain pass (nth / skip / step_by / count / last / size_hint)
            let owned: Vec<String> = list.iter().map(|s| s.to_string()).collect();
            if let Some(w) = vh::models::iter_protocol(|| r.iter(), &owned) {
                return Err(w);
            }
            for j in [1usize, n] {
                if j <= n {
                    if let Some(w) = vh::models::iter_protocol(|| r.iter_from(j), &owned[j..]) {
                        return Err(format!("iter_from({j}): {w}"));
                    }
                }
            }
        }
        Ok(())
    });
    q!("lend", {
        for which in 0..2 {
            let mut it = if which == 0 { r.lend() } else { (&r).into_lender() };
            for j in 0..=n {
                if it.len() != n - j || it.size_hint() != (n - j, Some(n - j)) {
                    return Err(format!("lend(): len() = {} after {j} items", it.len()));
                }
                match it.next() {
                    Some(x) => {
                        if j >= n || x != list[j] {
                            return Err(format!("lend(): item {j} = {} wrong", show(x)));
                        }
                    }
                    None => {
                        if j != n {
                            return Err(format!("lend() ended after {j} items"));
                        }
                    }
                }
            }
        }
        Ok(())
    });
    for from in 0..=n {
        q!("iter_from", {
            for which in 0..2 {
                let mut it = if which == 0 { r.iter_from(from) } else { (&r).into_iter_from(from) };
                for j in from..=n {
                    if it.len() != n - j {
                        return Err(format!("iter_from({from}): len() = {} after {} items, expected {}", it.len(), j - from, n - j));
                    }
                    match it.next() {
                        Some(x) => {
                            if j >= n || x != list[j] {
                                return Err(format!("iter_from({from}): item {} = {} wrong", j - from, show(&x)));
                            }
                        }
                        None => {
                            if j != n {
                                return Err(format!("iter_from({from}) ended after {} items", j - from));
                            }
                        }
                    }
                }
            }
            Ok(())
        });
        q!("lend_from", {
            let mut it = r.lend_from(from);
            for j in from..=n {
                if it.len() != n - j {
                    return Err(format!("lend_from({from}): len() = {} after {} items, expected {}", it.len(), j - from, n - j));
                }
                match it.next() {
                    Some(x) => {
                        if j >= n || x != list[j] {
                            return Err(format!("lend_from({from}): item {} = {} wrong", j - from, show(x)));
                        }
                    }
                    None => {
                        if j != n {
                            return Err(format!("lend_from({from}) ended after {} items", j - from));
                        }
                    }
                }
            }
            Ok(())
        });
    }
    q!("index_of", {
        for p in probes {
            let got = r.index_of(p.as_str());
            let present = list.iter().any(|s| s == p);
            match got {
                Some(i) => {
                    if i >= n || list[i] != p {
                        return Err(format!("index_of({}) = {got:?}, which does not hold it", show(p)));
                    }
                }
                None => {
                    if present {
                        let sorted = list.windows(2).all(|w| w[0].as_bytes() <= w[1].as_bytes());
                        return Err(format!("index_of({}) = None although it was pushed (list sorted: {sorted})", show(p)));
                    }
                }
            }
            if r.contains(p.as_str()) != present {
                return Err(format!("contains({}) = {} expected {present}", show(p), !present));
            }
        }
        Ok(())
    });
    // out of domain: must panic (unwinding), which the guard observes; an abort is caught by the supervisor
    if !guard(|| r.get(n)).is_panic() {
        ctx.violation(&key("get", "out-of-range-not-rejected"), format!("get({n}) with len {n} returned"));
    }
}

fn main() {
    let mut ctx = Ctx::from_args();
    start_watchdog(120);
    let t = ctx.thorough();
    let a127 = "a".repeat(127);
    let a128 = "a".repeat(128);
    let a129b = format!("{}b", "a".repeat(129));
    let a16511 = "a".repeat(16511);
    let a16512c = format!("{}c", "a".repeat(16512));
    let short: Vec<&str> = vec!["", "a", "ab", "abc", "abd", "b", "é", "éa", "\u{10FFFF}"];
    let long: Vec<&str> = vec![&a127, &a128, &a129b];
    let vlong: Vec<&str> = vec![&a16511, &a16512c];
    let mut probes: Vec<String> = short.iter().chain(long.iter()).map(|s| s.to_string()).collect();
    probes.extend(["aa", "aba", "abcd", "abb", "c", "e", "éb", "\u{7f}", "\u{80}", "ac", " "].iter().map(|s| s.to_string()));
    probes.push("a".repeat(126));
    probes.push("a".repeat(129));
    probes.push("a".repeat(130));
    let mut probes_long = probes.clone();
    probes_long.extend(vlong.iter().map(|s| s.to_string()));
    probes_long.push("a".repeat(16512));
    let ks: Vec<usize> = vec![1, 2, 3, 4, 5];

    let mut run_space = |ctx: &mut Ctx, fam: &str, sigma: &[&str], maxlen: usize, probes: &[String], must_contain_from: usize| {
        let m = sigma.len();
        for len in 0..=maxlen {
            for mut code in 0..m.pow(len as u32) {
                let mut list = vec![];
                let mut has = must_contain_from == 0;
                for _ in 0..len {
                    let i = code % m;
                    has |= i >= must_contain_from;
                    list.push(sigma[i]);
                    code /= m;
                }
                if !has {
                    continue; // already covered by the smaller alphabet
                }
                for &k in &ks {
                    if ctx.case(|| format!("RearCodedList family={fam} k={k} list=[{}]", list.iter().map(|s| show(s)).collect::<Vec<_>>().join(", "))) {
                        if len >= 2 {
                            ctx.nontrivial();
                        }
                        check(ctx, &list, k, probes);
                    }
                }
            }
        }
    };
    run_space(&mut ctx, "short", &short, if t { 7 } else { 6 }, &probes, 0);
    // multi-byte characters that share their leading byte(s): common prefixes ending inside a character
    let utf8: Vec<&str> = vec!["", "a", "é", "è", "éa", "一", "丁", "😀", "😁", "😀a", "caf\u{e8}", "caf\u{e9}"];
    let mut probes_u: Vec<String> = utf8.iter().map(|s| s.to_string()).collect();
    probes_u.extend(["ê", "\u{c0}", "丂", "😂", "caf", "cafe", "\u{10FFFF}"].iter().map(|s| s.to_string()));
    run_space(&mut ctx, "utf8", &utf8, if t { 5 } else { 4 }, &probes_u, 0);
    // strings of 8 bytes and more whose first difference lies inside a full 8-byte word and is followed by further
    // differences in the same word (a word-at-a-time comparison must still order them by the FIRST difference),
    // with differences also at offsets 7/8 and 15/16
    let words8: Vec<&str> = vec!["international", "interaction", "interactive", "internal", "interzonal", "abcdefgh", "abcdefgz", "abcdefghZ", "abcdefghiA", "abcdefgzaaaaaaaab", "abcdefgzaaaaaaaaa", "zbcdefga"];
    let mut probes_w: Vec<String> = words8.iter().map(|s| s.to_string()).collect();
    probes_w.extend(["inter", "internationale", "abcdefg", "abcdefgy", "zz"].iter().map(|s| s.to_string()));
    run_space(&mut ctx, "words-of-8-bytes-and-more", &words8, if t { 4 } else { 3 }, &probes_w, 0);
    let mut sl: Vec<&str> = short.clone();
    sl.extend(long.iter());
    run_space(&mut ctx, "short+long", &sl, 3, &probes, short.len());
    let mut sv: Vec<&str> = vec!["", "a", "b", &a127, &a128];
    let base = sv.len();
    sv.extend(vlong.iter());
    run_space(&mut ctx, "very-long", &sv, if t { 3 } else { 2 }, &probes_long, base);
    // rear lengths crossing the next boundary of the variable-byte code (128^3 + 128^2 + 128 = 2 113 664): thorough only
    if t {
        for d in [-1i64, 0, 1] {
            let big = "a".repeat((2_113_664i64 + d) as usize);
            let bigc = format!("{big}c");
            for list in [vec![big.as_str(), "b"], vec![big.as_str(), "ab", "b"], vec!["", big.as_str(), ""], vec![bigc.as_str(), "a"], vec![big.as_str(), bigc.as_str(), "b"]] {
                for &k in &[1usize, 2, 4] {
                    if ctx.case(|| format!("RearCodedList family=rear-length-2113664{d:+} k={k} list of {} strings", list.len())) {
                        ctx.nontrivial();
                        check(&mut ctx, &list, k, &["".to_string(), "a".to_string(), "b".to_string(), big.clone(), bigc.clone(), "ab".to_string(), "c".to_string()]);
                    }
                }
            }
        }
    }
    // rear lengths as such: the list [x^r, y] stores r in the variable-byte code of its second string.
    // EVERY r up to R (all of the 1-byte class, the 1/2-byte boundary; thorough: all of the 2-byte class
    // and the 2/3-byte boundary), then offsets inside each longer class whose bytes are pairwise
    // different and non-zero (a byte written to the wrong place, or twice, changes the value)
    let ub: [usize; 5] = [0, 128, 128 + (1 << 14), 128 + (1 << 14) + (1 << 21), 128 + (1 << 14) + (1 << 21) + (1 << 28)];
    let mut rears: Vec<usize> = (0..=if t { 40_000 } else { 1_500 }).collect();
    for v in [0x0102usize, 0x2155, 0x3ffe, 0x3fff] {
        rears.push(ub[1] + v);
    }
    for v in [0x010203usize, 0x020100, 0x1f8055, 0x1fffff, 0x00ff00, 0x0000ff] {
        rears.push(ub[2] + v);
    }
    for v in [0x0001_0203usize, 0x0002_0100, 0x0080_0155, 0x0102_0304] {
        rears.push(ub[3] + v);
    }
    if t {
        rears.extend((0..ub[3] - ub[2]).step_by(4099).map(|v| ub[2] + v));
        rears.extend((0..40usize << 20).step_by(1_048_573 * 3).map(|v| ub[3] + v));
        rears.extend([ub[4] - 1, ub[4], ub[4] + 1, ub[4] + 0x0001_0203, ub[4] + 0x0102_0304]);
    }
    for r in rears {
        if !ctx.case(|| format!("RearCodedList family=rear-length r={r}")) {
            continue;
        }
        ctx.nontrivial();
        let big = "x".repeat(r);
        let probes = ["".to_string(), "x".to_string(), "y".to_string(), "xy".to_string()];
        check(&mut ctx, &[big.as_str(), "y"], 2, &probes);
        if r > 0 {
            // the same rear length after a shared prefix of one character
            let pre = format!("x{}", "w".repeat(r));
            check(&mut ctx, &[pre.as_str(), "xy", "z"], 4, &probes);
        }
    }
    // long sorted lists with shared prefixes (binary search over many blocks)
    let words: Vec<String> = (0..if t { 600 } else { 150 }).map(|i| format!("k{:03}{}", i / 3, ["", "x", "xy"][i % 3])).collect();
    let wl: Vec<&str> = words.iter().map(|s| s.as_str()).collect();
    let mut wp: Vec<String> = words.iter().step_by(7).cloned().collect();
    wp.extend(["k", "k000w", "k0500", "k999", "j", "l", "k049xz"].iter().map(|s| s.to_string()));
    for &k in &[1usize, 2, 3, 4, 5, 8, 16, 64] {
        for cut in [wl.len(), wl.len() - 1, wl.len() - 2, 64, 65] {
            if ctx.case(|| format!("RearCodedList family=sorted-words k={k} n={cut}")) {
                ctx.nontrivial();
                check(&mut ctx, &wl[..cut], k, &wp);
            }
        }
    }
    ctx.finish();
}

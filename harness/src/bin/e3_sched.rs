//! C13 — concurrent writers to distinct elements never interfere: all
//! interleavings (up to a preemption bound) of the atomic operations of 2-3
//! real threads running the real methods of AtomicBitVec, AtomicBitFieldVec and
//! EliasFanoConcurrentBuilder under the controlled scheduler (`vh::sched`).
use std::sync::atomic::Ordering::Relaxed;
use sux::prelude::*;
use sux::traits::bit_field_slice::AtomicBitFieldSlice;
use vh::rt::*;
use vh::sched::*;

#[derive(Clone, Copy, Debug, PartialEq)]
enum BOp {
    Set(usize, bool),
    Swap(usize, bool),
    Get(usize),
}

fn init_bits(i: usize) -> bool {
    mix(i as u64 + 77) & 1 == 1
}

/// Is there a sequential order of the operations (respecting program order)
/// with the observed return values and final state?
fn linearizable(progs: &[Vec<BOp>], rets: &[Vec<Option<bool>>], fin: &[bool], init: &[bool]) -> bool {
    fn rec(progs: &[Vec<BOp>], rets: &[Vec<Option<bool>>], pc: &mut Vec<usize>, st: &mut Vec<bool>, fin: &[bool]) -> bool {
        if pc.iter().enumerate().all(|(t, &p)| p == progs[t].len()) {
            return st == fin;
        }
        for t in 0..progs.len() {
            if pc[t] < progs[t].len() {
                let op = progs[t][pc[t]];
                let exp = rets[t][pc[t]];
                let (old, ok) = match op {
                    BOp::Set(i, b) => {
                        let o = st[i];
                        st[i] = b;
                        (Some((i, o)), true)
                    }
                    BOp::Swap(i, b) => {
                        let o = st[i];
                        st[i] = b;
                        (Some((i, o)), exp == Some(o))
                    }
                    BOp::Get(i) => (None, exp == Some(st[i])),
                };
                if ok {
                    pc[t] += 1;
                    if rec(progs, rets, pc, st, fin) {
                        return true;
                    }
                    pc[t] -= 1;
                }
                if let Some((i, o)) = old {
                    st[i] = o;
                }
            }
        }
        false
    }
    rec(progs, rets, &mut vec![0; progs.len()], &mut init.to_vec(), fin)
}

struct Acc<'a> {
    ctx: &'a mut Ctx,
    bound: usize,
    outcomes: std::collections::BTreeSet<u64>,
}

fn bitvec_body(acc: &mut Acc, progs: Vec<Vec<BOp>>) {
    let n = progs.len();
    let total_ops: usize = progs.iter().map(|p| p.len()).sum();
    if !acc.ctx.case(|| format!("AtomicBitVec threads={n} programs={progs:?}")) {
        return;
    }
    acc.ctx.nontrivial();
    let len = 130;
    let init: Vec<bool> = (0..len).map(init_bits).collect();
    let fresh = || -> AtomicBitVec {
        let b: BitVec = init.iter().copied().collect();
        b.into()
    };
    let progs2 = progs.clone();
    let body = move |v: &AtomicBitVec, tid: usize| -> Vec<Option<bool>> {
        progs2[tid]
            .iter()
            .map(|op| match *op {
                BOp::Set(i, b) => {
                    v.set(i, b, Relaxed);
                    None
                }
                BOp::Swap(i, b) => Some(v.swap(i, b, Relaxed)),
                BOp::Get(i) => Some(v.get(i, Relaxed)),
            })
            .collect()
    };
    let mut stats = ExploreStats::default();
    let bound = if total_ops <= 2 { usize::MAX / 2 } else { acc.bound };
    let mut outcomes = std::collections::BTreeSet::new();
    let r = explore(
        n,
        bound,
        &fresh,
        &body,
        &mut |v: &AtomicBitVec, rets: &[Vec<Option<bool>>], _tr| {
            let fin: Vec<bool> = (0..len).map(|i| v.get(i, Relaxed)).collect();
            outcomes.insert(fnv_words(fin.iter().map(|&b| b as u64).chain(rets.iter().flatten().map(|r| r.map_or(2, |b| b as u64)))));
            if !linearizable(&progs, rets, &fin, &init) {
                let changed: Vec<usize> = (0..len).filter(|&i| fin[i] != init[i]).collect();
                return Some(format!("not explained by any sequential order: returns {rets:?}, bits differing from the initial contents {changed:?}"));
            }
            None
        },
        &mut stats,
        2_000_000,
    );
    finish_body(acc, "AtomicBitVec", r, stats, outcomes.len());
}

fn finish_body(acc: &mut Acc, site: &str, r: Result<Option<(String, Vec<usize>)>, String>, stats: ExploreStats, outcomes: usize) {
    acc.ctx.states += stats.executions;
    acc.ctx.transitions += stats.points;
    acc.ctx.add("executions", stats.executions);
    acc.ctx.add("executions_with_cas_retry", stats.executions_with_cas_retry);
    let c = acc.ctx.counters.entry("max_points_in_one_execution".into()).or_insert(0);
    *c = (*c).max(stats.max_points);
    let c = acc.ctx.counters.entry("max_distinct_outcomes_of_one_body".into()).or_insert(0);
    *c = (*c).max(outcomes as u64);
    acc.outcomes.insert(outcomes as u64);
    match r {
        Ok(None) => {}
        Ok(Some((what, sched))) => acc.ctx.violation(&format!("C13|{site}|interference"), format!("{what}; schedule (thread ids per scheduling point) = {sched:?}")),
        Err(e) => {
            if e.contains("horizon") {
                acc.ctx.violation(&format!("C13|{site}|livelock"), e)
            } else if e.contains("panicked") {
                acc.ctx.violation(&format!("C13|{site}|panic"), e)
            } else if e.contains("cap") {
                acc.ctx.cap("execution cap reached in one body")
            } else {
                panic!("scheduler machinery failure: {e}")
            }
        }
    }
}

macro_rules! bfv_body {
    ($acc:expr, $W:ty, $width:expr, $writes:expr, $reader:expr) => {{
        let acc: &mut Acc = $acc;
        let width: usize = $width;
        // writes[t] = list of (index, value) of thread t
        let writes: Vec<Vec<(usize, $W)>> = $writes;
        let reader: Option<usize> = $reader;
        let n = writes.len() + usize::from(reader.is_some());
        if acc.ctx.case(|| format!("AtomicBitFieldVec<{}> width={width} writes={writes:?} reader_of={reader:?}", stringify!($W))) {
            acc.ctx.nontrivial();
            let len = (3 * (<$W>::BITS as usize).div_ceil(width.max(1)) + 3).max(12);
            let mask: $W = if width == 0 { 0 } else { <$W>::MAX >> (<$W>::BITS as usize - width) };
            let init: Vec<$W> = (0..len).map(|i| (mix(i as u64 * 5 + 3) as $W) & mask).collect();
            let fresh = || -> AtomicBitFieldVec<$W> {
                let a = AtomicBitFieldVec::<$W>::new(width, len);
                for i in 0..len {
                    a.set_atomic(i, init[i], Relaxed);
                }
                a
            };
            let w2 = writes.clone();
            let nw = writes.len();
            let body = move |v: &AtomicBitFieldVec<$W>, tid: usize| -> Option<$W> {
                if tid < nw {
                    for &(i, x) in &w2[tid] {
                        v.set_atomic(i, x, Relaxed);
                    }
                    None
                } else {
                    Some(v.get_atomic(reader.unwrap(), Relaxed))
                }
            };
            let mut exp = init.clone();
            for t in &writes {
                for &(i, x) in t {
                    exp[i] = x;
                }
            }
            let total_ops: usize = writes.iter().map(|t| t.len()).sum::<usize>() + usize::from(reader.is_some());
            let bound = if total_ops <= 2 { usize::MAX / 2 } else { acc.bound };
            let mut stats = ExploreStats::default();
            let mut outcomes = std::collections::BTreeSet::new();
            let r = explore(
                n,
                bound,
                &fresh,
                &body,
                &mut |v: &AtomicBitFieldVec<$W>, rets: &[Option<$W>], _tr| {
                    let fin: Vec<$W> = (0..len).map(|i| v.get_atomic(i, Relaxed)).collect();
                    outcomes.insert(fnv_words(fin.iter().map(|&x| x as u64)));
                    if fin != exp {
                        let bad = (0..len).find(|&i| fin[i] != exp[i]).unwrap();
                        return Some(format!("element {bad} = {:#x} expected {:#x} (writes {writes:?})", fin[bad], exp[bad]));
                    }
                    if let (Some(ri), Some(Some(got))) = (reader, rets.last()) {
                        if *got != init[ri] {
                            return Some(format!("a concurrent reader of the unwritten element {ri} saw {got:#x} instead of {:#x}", init[ri]));
                        }
                    }
                    None
                },
                &mut stats,
                2_000_000,
            );
            finish_body(acc, "AtomicBitFieldVec::set_atomic", r, stats, outcomes.len());
        }
    }};
}

macro_rules! bfv_space {
    ($acc:expr, $W:ty, $widths:expr, $t:expr) => {{
        let thorough: bool = $t;
        for &width in $widths {
            let mask: $W = <$W>::MAX >> (<$W>::BITS as usize - width);
            let vals: [$W; 3] = [0, mask, (0x5555_5555_5555_5555u64 as $W) & mask];
            let m = 6usize;
            // pairs of distinct indices among the first m elements (+ the element crossing into the third word)
            for i in 0..m {
                for j in i + 1..m {
                    for (a, b) in [(vals[1], vals[0]), (vals[2], vals[1])] {
                        bfv_body!($acc, $W, width, vec![vec![(i, a)], vec![(j, b)]], None);
                    }
                    if thorough {
                        // two writes per thread
                        bfv_body!($acc, $W, width, vec![vec![(i, vals[1]), (m + (i % 2), vals[2])], vec![(j, vals[0]), (m + 2 + (j % 2), vals[1])]], None);
                    }
                }
            }
            // triples
            for i in 0..m {
                for j in i + 1..m {
                    for k in j + 1..m {
                        if !thorough && (i + j + k) % 2 == 1 {
                            continue;
                        }
                        bfv_body!($acc, $W, width, vec![vec![(i, vals[1])], vec![(j, vals[0])], vec![(k, vals[2])]], None);
                    }
                }
            }
            // two writers around an element that a third thread reads
            for r in 1..m - 1 {
                bfv_body!($acc, $W, width, vec![vec![(r - 1, vals[1])], vec![(r + 1, vals[0])]], Some(r));
            }
        }
    }};
}

fn ef_body(acc: &mut Acc, values: Vec<usize>, u: usize, parts: Vec<Vec<usize>>) {
    let n = values.len();
    if !acc.ctx.case(|| format!("EliasFanoConcurrentBuilder values={values:?} u={u} per-thread index order={parts:?}")) {
        return;
    }
    acc.ctx.nontrivial();
    let seq = {
        let mut b = EliasFanoBuilder::new(n, u);
        for &v in &values {
            b.push(v);
        }
        b.build_with_seq_and_dict()
    };
    // the builder is shared by reference (`set` takes &self); the check takes it out after the join
    struct Shared(std::cell::UnsafeCell<Option<EliasFanoConcurrentBuilder>>);
    unsafe impl Sync for Shared {}
    let fresh2 = || Shared(std::cell::UnsafeCell::new(Some(EliasFanoConcurrentBuilder::new(n, u))));
    let p2 = parts.clone();
    let v2 = values.clone();
    let body = move |s: &Shared, tid: usize| {
        // SAFETY: the option is only taken after all threads have been joined
        let b = unsafe { (*s.0.get()).as_ref().unwrap() };
        for &i in &p2[tid] {
            unsafe { b.set(i, v2[i]) };
        }
    };
    let mut stats = ExploreStats::default();
    let mut outcomes = std::collections::BTreeSet::new();
    let r = explore(
        parts.len(),
        acc.bound,
        &fresh2,
        &body,
        &mut |s: &Shared, _r: &[()], _tr| {
            // SAFETY: all threads have been joined
            let b: EliasFanoConcurrentBuilder = unsafe { (*s.0.get()).take().unwrap() };
            let ef = b.build_with_seq_and_dict();
            let got: Vec<usize> = (0..n).map(|i| ef.get(i)).collect();
            outcomes.insert(fnv_words(got.iter().map(|&x| x as u64)));
            let res = if got != values {
                Some(format!("concurrent build gives {got:?} instead of {values:?}"))
            } else if ef.iter().collect::<Vec<_>>() != values || (0..=u.min(40)).any(|q| ef.succ(q) != seq.succ(q) || ef.pred(q) != seq.pred(q) || ef.index_of(q) != seq.index_of(q)) {
                Some("concurrent build answers differently from the sequential build".to_string())
            } else {
                None
            };
            res
        },
        &mut stats,
        2_000_000,
    );
    finish_body(acc, "EliasFanoConcurrentBuilder::set", r, stats, outcomes.len());
}

fn partitions(n: usize, k: usize) -> Vec<Vec<Vec<usize>>> {
    // all assignments of indices 0..n to k threads with every thread non-empty; per-thread order ascending
    let mut out = vec![];
    for code in 0..k.pow(n as u32) {
        let mut parts = vec![vec![]; k];
        let mut c = code;
        for i in 0..n {
            parts[c % k].push(i);
            c /= k;
        }
        if parts.iter().all(|p| !p.is_empty()) && parts.windows(2).all(|w| w[0][0] < w[1][0]) {
            out.push(parts);
        }
    }
    out
}

fn main() {
    let mut ctx = Ctx::from_args();
    start_watchdog(600);
    sux::verif_hooks::set_point_hook(Some(vh::sched::hook));
    let t = ctx.thorough();
    let bound: usize = ctx.opt("bound").map(|b| b.parse().unwrap()).unwrap_or(if t { 4 } else { 2 });
    let mut acc = Acc { ctx: &mut ctx, bound, outcomes: Default::default() };

    // 1. AtomicBitVec: pairs of single operations on {0,1,63,64}; then selected longer programs
    let idx = [0usize, 1, 63, 64];
    let mut ops: Vec<BOp> = vec![];
    for &i in &idx {
        for b in [false, true] {
            ops.push(BOp::Set(i, b));
            ops.push(BOp::Swap(i, b));
        }
        ops.push(BOp::Get(i));
    }
    for a in 0..ops.len() {
        for b in a..ops.len() {
            bitvec_body(&mut acc, vec![vec![ops[a]], vec![ops[b]]]);
        }
    }
    // swaps on one shared bit by three threads, and two operations per thread
    for (x, y, z) in [(true, true, false), (true, false, true), (false, false, true), (true, true, true)] {
        bitvec_body(&mut acc, vec![vec![BOp::Swap(63, x)], vec![BOp::Swap(63, y)], vec![BOp::Swap(63, z)]]);
        bitvec_body(&mut acc, vec![vec![BOp::Swap(0, x), BOp::Swap(1, y)], vec![BOp::Swap(1, z), BOp::Swap(0, !x)]]);
        bitvec_body(&mut acc, vec![vec![BOp::Set(0, x), BOp::Get(1)], vec![BOp::Set(1, y), BOp::Get(0)], vec![BOp::Swap(64, z)]]);
        bitvec_body(&mut acc, vec![vec![BOp::Set(62, x), BOp::Set(64, y)], vec![BOp::Set(63, z), BOp::Swap(65, x)], vec![BOp::Swap(62, y), BOp::Get(63)]]);
    }
    // 2. AtomicBitFieldVec
    bfv_space!(&mut acc, u8, &[1usize, 3, 5, 7], t);
    bfv_space!(&mut acc, u16, &[5usize, 11], t);
    bfv_space!(&mut acc, usize, if t { &[5usize, 13, 31, 63][..] } else { &[5usize, 13, 63][..] }, t);
    // 3. concurrent Elias-Fano builder: l > 0 and l = 0, low parts sharing a word, high bits sharing a word
    let seqs: Vec<(Vec<usize>, usize)> = vec![(vec![0, 3, 3], 3), (vec![1, 5, 9], 40), (vec![0, 1, 2, 3], 3), (vec![2, 70, 71, 200], 1000), (vec![5, 5, 5, 5, 6], 6), (vec![0, 100, 200, 300, 4000], 4000)];
    for (values, u) in seqs {
        let n = values.len();
        for k in 2..=3usize {
            for parts in partitions(n, k) {
                if n > 4 && !t && parts.iter().map(|p| p.len()).max().unwrap() > 2 {
                    continue;
                }
                ef_body(&mut acc, values.clone(), u, parts.clone());
                if n <= 4 {
                    // reversed order inside every thread
                    let rev: Vec<Vec<usize>> = parts.iter().map(|p| p.iter().rev().copied().collect()).collect();
                    if rev != parts {
                        ef_body(&mut acc, values.clone(), u, rev);
                    }
                }
            }
        }
    }
    let o = acc.outcomes.clone();
    drop(acc);
    for x in o {
        ctx.outcome(x);
    }
    ctx.finish();
}

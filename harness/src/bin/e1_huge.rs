//! C01 / C02 — boundary probes beyond 2^32 bits: the upper
//! counters of RankSmall (one per 2^32 bits), the 64-bit span encoding of the
//! adaptive selectors (ones more than 2^32 bits apart) and 32-bit overflow of
//! in-block positions. A handful of shapes, not coverage of that regime.
use sux::prelude::*;
use vh::rt::*;

fn shape(which: usize) -> (String, usize, Vec<usize>) {
    let b = 1usize << 32;
    match which {
        0 => ("ones at 5, 2^32-1, 2^32, 2^32+1, len-1".into(), b + (1 << 20), vec![5, b - 1, b, b + 1, b + (1 << 20) - 1]),
        1 => ("two ones 2^32+77 apart".into(), b + 1000, vec![3, b + 80]),
        2 => ("dense first 2^16 bits then a single one at the end".into(), b + 64 * 3 + 1, (0..1usize << 16).filter(|i| i % 3 != 0).chain([b + 64 * 3]).collect()),
        3 => ("no ones".into(), b + 5, vec![]),
        // eight ones 2^30 + 2^27 bits apart: with 4 ones per inventory entry every entry spans more than
        // 2^32 bits (64-bit span encoding in the SECOND entry too, ranks spilling there)
        _ => ("eight ones 2^30+2^27 apart (two 64-bit-span entries)".into(), 8 * ((1 << 30) + (1 << 27)) + 200, (0..8).map(|i| 100 + i * ((1usize << 30) + (1 << 27))).collect()),
    }
}

/// Word-periodic segments with closed-form rank and select, so that dense vectors beyond 2^32 bits have a
/// reference model that needs no list of positions.
#[derive(Clone, Copy, Debug, PartialEq)]
enum Kind {
    Zeros,
    Ones,
    /// 0101..: ones at the even positions
    Alt,
    /// bit 0 of every word
    OnePerWord,
}
#[derive(Clone, Copy, Debug)]
struct Seg {
    start: usize, // multiple of 64
    end: usize,
    kind: Kind,
}
impl Seg {
    /// ones among the first k bits of the segment
    fn ones_in(&self, k: usize) -> usize {
        match self.kind {
            Kind::Zeros => 0,
            Kind::Ones => k,
            Kind::Alt => k.div_ceil(2),
            Kind::OnePerWord => k.div_ceil(64),
        }
    }
    /// offset of the one of rank r inside the segment
    fn one_at(&self, r: usize) -> usize {
        match self.kind {
            Kind::Zeros => unreachable!(),
            Kind::Ones => r,
            Kind::Alt => 2 * r,
            Kind::OnePerWord => 64 * r,
        }
    }
    /// offset of the zero of rank r inside the segment
    fn zero_at(&self, r: usize) -> usize {
        match self.kind {
            Kind::Ones => unreachable!(),
            Kind::Zeros => r,
            Kind::Alt => 2 * r + 1,
            Kind::OnePerWord => r + r / 63 + 1,
        }
    }
    fn word(&self) -> usize {
        match self.kind {
            Kind::Zeros => 0,
            Kind::Ones => usize::MAX,
            Kind::Alt => 0x5555_5555_5555_5555,
            Kind::OnePerWord => 1,
        }
    }
}
struct Formula {
    segs: Vec<Seg>,
    len: usize,
}
impl Formula {
    fn rank(&self, p: usize) -> usize {
        let p = p.min(self.len);
        self.segs.iter().map(|s| if p <= s.start { 0 } else { s.ones_in(p.min(s.end) - s.start) }).sum()
    }
    fn num_ones(&self) -> usize {
        self.rank(self.len)
    }
    fn select(&self, mut r: usize) -> Option<usize> {
        for s in &self.segs {
            let c = s.ones_in(s.end - s.start);
            if r < c {
                return Some(s.start + s.one_at(r));
            }
            r -= c;
        }
        None
    }
    fn select_zero(&self, mut r: usize) -> Option<usize> {
        for s in &self.segs {
            let c = (s.end - s.start) - s.ones_in(s.end - s.start);
            if r < c {
                return Some(s.start + s.zero_at(r));
            }
            r -= c;
        }
        None
    }
    fn build(&self) -> BitVec {
        let mut words = vec![0usize; self.len.div_ceil(64)];
        for s in &self.segs {
            let w = s.word();
            if w != 0 {
                words[s.start / 64..s.end.div_ceil(64)].fill(w);
                if s.end % 64 != 0 {
                    words[s.end / 64] &= (1usize << (s.end % 64)) - 1;
                }
            }
        }
        // SAFETY: the words hold len bits and nothing beyond
        unsafe { BitVec::from_raw_parts(words, self.len) }
    }
}

fn formula_shapes(t: bool) -> Vec<(String, Formula)> {
    let b = 1usize << 32;
    let mk = |name: &str, segs: Vec<(usize, usize, Kind)>| {
        let len = segs.last().unwrap().1;
        (name.to_string(), Formula { segs: segs.into_iter().map(|(start, end, kind)| Seg { start, end, kind }).collect(), len })
    };
    let mut v = vec![
        mk("alternating, 2^32+130 bits", vec![(0, b + 130, Kind::Alt)]),
        mk("first upper block empty, then 2^16 ones", vec![(0, b, Kind::Zeros), (b, b + (1 << 16) + 7, Kind::Ones)]),
        mk("first upper block all ones, then 2^16 zeros", vec![(0, b, Kind::Ones), (b, b + (1 << 16) + 7, Kind::Zeros)]),
        mk("one per word, 2^32+6400 bits", vec![(0, b + 6400, Kind::OnePerWord)]),
        mk("ones, 128 zeros across the 2^32 boundary, 64 ones", vec![(0, b - 64, Kind::Ones), (b - 64, b + 64, Kind::Zeros), (b + 64, b + 128, Kind::Ones)]),
        mk("alternating then ones across the boundary", vec![(0, b - 640, Kind::Alt), (b - 640, b + 640, Kind::Ones), (b + 640, b + 1000, Kind::OnePerWord)]),
    ];
    if t {
        v.push(mk("2^16 ones, an empty middle upper block, 100 ones after 2^33", vec![(0, 1 << 16, Kind::Ones), (1 << 16, 2 * b, Kind::Zeros), (2 * b, 2 * b + 100, Kind::Ones)]));
        v.push(mk("alternating, 2^33+64 bits", vec![(0, 2 * b + 64, Kind::Alt)]));
        v.push(mk("ones, 2^33+1 bits", vec![(0, 2 * b + 1, Kind::Ones)]));
    }
    v
}

fn formula_cases(ctx: &mut Ctx, prop: &str) {
    let t = ctx.thorough();
    for (name, f) in formula_shapes(t) {
        if !ctx.case(|| format!("huge formula vector ({name}) ({prop})")) {
            continue;
        }
        ctx.nontrivial();
        let bv = f.build();
        let (len, ones) = (f.len, f.num_ones());
        let zeros = len - ones;
        // probe positions / ranks: around every segment boundary, every multiple of 2^32, both ends
        let mut pos: Vec<usize> = vec![0, 1, 63, 64, 65, len - 1, len, len + 1, usize::MAX];
        let mut marks: Vec<usize> = f.segs.iter().flat_map(|s| [s.start, s.end]).collect();
        marks.extend((1..=len >> 32).map(|k| k << 32));
        for &m in &marks {
            for d in [-130i64, -65, -64, -63, -2, -1, 0, 1, 2, 63, 64, 65, 130] {
                let p = m as i64 + d;
                if p >= 0 {
                    pos.push(p as usize);
                }
            }
        }
        pos.sort();
        pos.dedup();
        let mut ranks: Vec<usize> = vec![0, 1, ones.saturating_sub(1), ones, ones + 1, usize::MAX];
        let mut zranks: Vec<usize> = vec![0, 1, zeros.saturating_sub(1), zeros, zeros + 1, usize::MAX];
        for &p in &pos {
            let r = f.rank(p);
            let z = p.min(len) - r;
            for d in [-2i64, -1, 0, 1, 2] {
                if r as i64 + d >= 0 {
                    ranks.push((r as i64 + d) as usize);
                }
                if z as i64 + d >= 0 {
                    zranks.push((z as i64 + d) as usize);
                }
            }
        }
        for v in [&mut ranks, &mut zranks] {
            v.sort();
            v.dedup();
        }
        macro_rules! rk {
            ($n:expr, $s:expr) => {{
                match guard(|| $s) {
                    Outcome::Panic(m) => ctx.violation(&format!("C01|{}::new|panic", $n), format!("{name}: {m}")),
                    Outcome::Ret(s) => {
                        ctx.heartbeat();
                        if s.num_ones() != ones || s.len() != len {
                            ctx.violation(&format!("C01|{}|num_ones", $n), format!("{name}: num_ones {} len {} expected {ones} / {len}", s.num_ones(), s.len()));
                        }
                        for &p in &pos {
                            ctx.sub_evaluations += 1;
                            if s.rank(p) != f.rank(p) || s.rank_zero(p) != p - f.rank(p) {
                                ctx.violation(&format!("C01|{}|rank", $n), format!("{name}: rank({p}) = {} rank_zero = {} expected rank {}", s.rank(p), s.rank_zero(p), f.rank(p)));
                                break;
                            }
                        }
                    }
                }
            }};
        }
        macro_rules! sl {
            ($n:expr, $s:expr, $z:tt) => {{
                match guard(|| $s) {
                    Outcome::Panic(m) => ctx.violation(&format!("C02|{}::new|panic", $n), format!("{name}: {m}")),
                    Outcome::Ret(s) => {
                        ctx.heartbeat();
                        for &r in &ranks {
                            ctx.sub_evaluations += 1;
                            match guard(|| s.select(r)) {
                                Outcome::Ret(g) if g == f.select(r) => {}
                                Outcome::Ret(g) => {
                                    ctx.violation(&format!("C02|{}|select", $n), format!("{name}: select({r}) = {g:?} expected {:?}", f.select(r)));
                                    break;
                                }
                                Outcome::Panic(m) => {
                                    ctx.violation(&format!("C02|{}|query-panic", $n), format!("{name}: select({r}) panicked: {m}"));
                                    break;
                                }
                            }
                        }
                        sl!(@z $z, $n, s);
                    }
                }
            }};
            (@z true, $n:expr, $s:expr) => {
                for &r in &zranks {
                    ctx.sub_evaluations += 1;
                    match guard(|| $s.select_zero(r)) {
                        Outcome::Ret(g) if g == f.select_zero(r) => {}
                        Outcome::Ret(g) => {
                            ctx.violation(&format!("C02|{}|select_zero", $n), format!("{name}: select_zero({r}) = {g:?} expected {:?}", f.select_zero(r)));
                            break;
                        }
                        Outcome::Panic(m) => {
                            ctx.violation(&format!("C02|{}|query-panic", $n), format!("{name}: select_zero({r}) panicked: {m}"));
                            break;
                        }
                    }
                }
            };
            (@z false, $n:expr, $s:expr) => {};
        }
        if prop == "C01" {
            rk!("Rank9", Rank9::new(&bv));
            rk!("RankSmall<2,9>", rank_small![0; &bv]);
            rk!("RankSmall<1,9>", rank_small![1; &bv]);
            rk!("RankSmall<1,10>", rank_small![2; &bv]);
            rk!("RankSmall<1,11>", rank_small![3; &bv]);
            rk!("RankSmall<3,13>", rank_small![4; &bv]);
        } else if prop == "C02" {
            sl!("SelectZeroAdapt(SelectAdapt(AddNumBits))", SelectZeroAdapt::new(SelectAdapt::new(AddNumBits::from(&bv), 3), 3), true);
            sl!("SelectZeroAdaptConst(SelectAdaptConst(AddNumBits))", SelectZeroAdaptConst::<_, _>::new(SelectAdaptConst::<_, _>::new(AddNumBits::from(&bv))), true);
            sl!("Select9(Rank9)", Select9::new(Rank9::new(&bv)), false);
            sl!("SelectZeroSmall(SelectSmall(RankSmall<2,9>))", SelectZeroSmall::<2, 9, _>::new(SelectSmall::<2, 9, _>::new(rank_small![0; &bv])), true);
            sl!("SelectZeroSmall(SelectSmall(RankSmall<1,9>))", SelectZeroSmall::<1, 9, _>::new(SelectSmall::<1, 9, _>::new(rank_small![1; &bv])), true);
            sl!("SelectZeroSmall(SelectSmall(RankSmall<1,10>))", SelectZeroSmall::<1, 10, _>::new(SelectSmall::<1, 10, _>::new(rank_small![2; &bv])), true);
            sl!("SelectZeroSmall(SelectSmall(RankSmall<1,11>))", SelectZeroSmall::<1, 11, _>::new(SelectSmall::<1, 11, _>::new(rank_small![3; &bv])), true);
            sl!("SelectZeroSmall(SelectSmall(RankSmall<3,13>))", SelectZeroSmall::<3, 13, _>::new(SelectSmall::<3, 13, _>::new(rank_small![4; &bv])), true);
        }
    }
}

fn main() {
    let mut ctx = Ctx::from_args();
    start_watchdog(1800);
    let prop = ctx.opt("prop").unwrap_or("C02").to_string();
    // all-ones vectors just beyond 2^32 bits: counters that must hold 2^32 ones or more (32-bit accumulators,
    // 32-bit block counters plus upper counts), plain, atomic and ranked
    for extra in [1usize, 200, 64 * 3] {
        let len = (1usize << 32) + extra;
        if !ctx.case(|| format!("huge all-ones vector len=2^32+{extra} ({prop})")) {
            continue;
        }
        ctx.nontrivial();
        let r = guard(|| -> Vec<(String, String)> {
            let mut bad: Vec<(String, String)> = vec![];
            let mut bv = BitVec::with_value(len, true);
            let mut zeros = 0usize;
            for round in 0..2 {
                let ones = len - zeros;
                if prop == "C06" {
                    if bv.count_ones() != ones || bv.count_zeros() != zeros {
                        bad.push(("BitVec::count_ones|wrong-observation".into(), format!("count_ones() = {} count_zeros() = {} expected {ones} / {zeros}", bv.count_ones(), bv.count_zeros())));
                    }
                    if bv.par_count_ones() != ones {
                        bad.push(("BitVec::par_count_ones|wrong-observation".into(), format!("par_count_ones() = {} expected {ones}", bv.par_count_ones())));
                    }
                    // positions beyond 32 bits through the zero iterator
                    let zs: Vec<usize> = bv.iter_zeros().collect();
                    let ez: Vec<usize> = if round == 0 { vec![] } else { vec![5, (1 << 32) - 1] };
                    if zs != ez {
                        bad.push(("BitVec::iter_zeros|wrong-observation".into(), format!("iter_zeros() = {zs:?} expected {ez:?}")));
                    }
                    let a: AtomicBitVec = bv.into();
                    if a.count_ones() != ones || a.count_zeros() != zeros {
                        bad.push(("AtomicBitVec::count_ones|wrong-observation".into(), format!("count_ones() = {} count_zeros() = {} expected {ones} / {zeros}", a.count_ones(), a.count_zeros())));
                    }
                    if a.par_count_ones() != ones {
                        bad.push(("AtomicBitVec::par_count_ones|wrong-observation".into(), format!("par_count_ones() = {} expected {ones}", a.par_count_ones())));
                    }
                    for p in [0usize, (1 << 32) - 1, 1 << 32, len - 1] {
                        if a.get(p, std::sync::atomic::Ordering::Relaxed) != (round == 0 || !(p == 5 || p == (1 << 32) - 1)) {
                            bad.push(("AtomicBitVec::get|wrong-observation".into(), format!("get({p}) wrong in round {round}")));
                        }
                    }
                    bv = a.into();
                } else if prop == "C01" {
                    macro_rules! rk {
                        ($n:expr, $s:expr) => {{
                            let s = $s;
                            if s.num_ones() != ones {
                                bad.push((format!("{}|num_ones", $n), format!("num_ones() = {} expected {ones}", s.num_ones())));
                            }
                            for p in [0usize, 6, (1 << 32) - 1, 1 << 32, (1 << 32) + 1, len - 1, len, len + 1, usize::MAX] {
                                // zeros (second round) are at 5 and 2^32 - 1
                                let e = p.min(len) - if round == 0 { 0 } else { usize::from(p > 5) + usize::from(p > (1 << 32) - 1) };
                                if s.rank(p) != e {
                                    bad.push((format!("{}|rank", $n), format!("rank({p}) = {} expected {e}", s.rank(p))));
                                    break;
                                }
                            }
                        }};
                    }
                    rk!("Rank9", Rank9::new(&bv));
                    rk!("RankSmall<2,9>", rank_small![0; &bv]);
                    rk!("RankSmall<1,9>", rank_small![1; &bv]);
                    rk!("RankSmall<1,10>", rank_small![2; &bv]);
                    rk!("RankSmall<1,11>", rank_small![3; &bv]);
                    rk!("RankSmall<3,13>", rank_small![4; &bv]);
                }
                if prop == "C02" {
                    let sel_pos = |r: usize| -> Option<usize> {
                        if r >= ones {
                            None
                        } else if round == 0 || r < 5 {
                            Some(r)
                        } else if r + 1 < (1 << 32) - 1 {
                            Some(r + 1)
                        } else {
                            Some(r + 2)
                        }
                    };
                    macro_rules! sl {
                        ($n:expr, $s:expr, $z:tt) => {{
                            let s = $s;
                            for r in [0usize, 4, 5, 6, (1 << 32) - 3, (1 << 32) - 2, (1 << 32) - 1, 1 << 32, ones - 1, ones, ones + 1, usize::MAX] {
                                if s.select(r) != sel_pos(r) {
                                    bad.push((format!("{}|select", $n), format!("select({r}) = {:?} expected {:?} (round {round})", s.select(r), sel_pos(r))));
                                    break;
                                }
                            }
                            sl!(@z $z, $n, s);
                        }};
                        (@z true, $n:expr, $s:expr) => {
                            let ez: [Option<usize>; 3] = if round == 0 { [None, None, None] } else { [Some(5), Some((1 << 32) - 1), None] };
                            for (r, e) in ez.iter().enumerate() {
                                if $s.select_zero(r) != *e {
                                    bad.push((format!("{}|select_zero", $n), format!("select_zero({r}) = {:?} expected {e:?} (round {round})", $s.select_zero(r))));
                                    break;
                                }
                            }
                        };
                        (@z false, $n:expr, $s:expr) => {};
                    }
                    sl!("SelectZeroAdapt(SelectAdapt(AddNumBits))", SelectZeroAdapt::new(SelectAdapt::new(AddNumBits::from(&bv), 3), 3), true);
                    sl!("Select9(Rank9)", Select9::new(Rank9::new(&bv)), false);
                    sl!("SelectZeroSmall(SelectSmall(RankSmall<1,9>))", SelectZeroSmall::<1, 9, _>::new(SelectSmall::<1, 9, _>::new(rank_small![1; &bv])), true);
                    sl!("SelectSmall(RankSmall<3,13>)", SelectSmall::<3, 13, _>::new(rank_small![4; &bv]), false);
                }
                // second round: two zeros, one below and one at the 2^32 boundary
                bv.set(5, false);
                bv.set((1 << 32) - 1, false);
                zeros = 2;
            }
            bad
        });
        match r {
            Outcome::Ret(bad) => {
                for (k, w) in bad {
                    ctx.violation(&format!("{prop}|{k}"), format!("all-ones vector of 2^32+{extra} bits: {w}"));
                }
            }
            Outcome::Panic(m) => ctx.violation(&format!("{prop}|BitVec::<huge-all-ones>|panic"), format!("2^32+{extra} bits: {m}")),
        }
    }
    if prop == "C06" {
        ctx.finish();
        return;
    }
    formula_cases(&mut ctx, &prop);
    for which in 0..5 {
        let (name, len, ones) = shape(which);
        if !ctx.case(|| format!("huge vector len={len} ({name})")) {
            continue;
        }
        ctx.nontrivial();
        let mut bv = BitVec::new(len);
        for &p in &ones {
            bv.set(p, true);
        }
        let rank = |p: usize| ones.partition_point(|&o| o < p.min(len));
        let zero_at = |r: usize| -> Option<usize> {
            // position of the zero of rank r: skip the ones below it
            let mut p = r;
            for &o in &ones {
                if o <= p {
                    p += 1;
                } else {
                    break;
                }
            }
            if p < len {
                Some(p)
            } else {
                None
            }
        };
        let mut pos: Vec<usize> = vec![0, 1, 63, 64, len / 2, (1 << 32) - 64, (1 << 32) - 1, 1 << 32, (1 << 32) + 1, (1 << 32) + 64, len - 1, len, len + 1, usize::MAX];
        for &o in &ones {
            pos.extend([o.saturating_sub(1), o, o + 1]);
        }
        let nz = len - ones.len();
        let mut zr: Vec<usize> = vec![0, 1, 1000, (1 << 32) - 70000, (1 << 32) - 3, (1 << 32) - 2, (1 << 32) - 1, 1 << 32, nz - 1, nz, nz + 1];
        for &o in &ones {
            zr.extend([o.saturating_sub(2), o.saturating_sub(1), o, o + 1]);
        }
        macro_rules! chk_rank {
            ($n:expr, $s:expr) => {{
                if prop == "C01" {
                    let s = $s;
                    ctx.heartbeat();
                    if s.num_ones() != ones.len() || s.len() != len {
                        ctx.violation(&format!("C01|{}|num_ones", $n), format!("{name}: num_ones {} len {}", s.num_ones(), s.len()));
                    }
                    for &p in &pos {
                        if s.rank(p) != rank(p) {
                            ctx.violation(&format!("C01|{}|rank", $n), format!("{name}: rank({p}) = {} expected {}", s.rank(p), rank(p)));
                            break;
                        }
                    }
                }
            }};
        }
        macro_rules! chk_sel {
            ($n:expr, $s:expr, $z:tt) => {{
                if prop == "C02" {
                    match guard(|| $s) {
                        Outcome::Panic(m) => ctx.violation(&format!("C02|{}::new|panic", $n), format!("{name}: {m}")),
                        Outcome::Ret(s) => {
                            ctx.heartbeat();
                            for r in (0..=ones.len() + 1).chain([usize::MAX]) {
                                let e = if r < ones.len() { Some(ones[r]) } else { None };
                                if s.select(r) != e {
                                    ctx.violation(&format!("C02|{}|select", $n), format!("{name}: select({r}) = {:?} expected {e:?}", s.select(r)));
                                    break;
                                }
                            }
                            chk_sel!(@z $z, $n, s);
                        }
                    }
                }
            }};
            (@z true, $n:expr, $s:expr) => {
                for &r in &zr {
                    let e = if r < nz { zero_at(r) } else { None };
                    let g = $s.select_zero(r);
                    if g != e {
                        ctx.violation(&format!("C02|{}|select_zero", $n), format!("{name}: select_zero({r}) = {g:?} expected {e:?}"));
                        break;
                    }
                }
            };
            (@z false, $n:expr, $s:expr) => {};
        }
        chk_rank!("Rank9", Rank9::new(&bv));
        chk_rank!("RankSmall<2,9>", rank_small![0; &bv]);
        chk_rank!("RankSmall<1,9>", rank_small![1; &bv]);
        chk_rank!("RankSmall<1,11>", rank_small![3; &bv]);
        chk_rank!("RankSmall<3,13>", rank_small![4; &bv]);
        chk_sel!("SelectZeroAdapt(SelectAdapt(AddNumBits))", SelectZeroAdapt::new(SelectAdapt::new(AddNumBits::from(&bv), 3), 3), true);
        chk_sel!("SelectZeroAdapt(SelectAdapt(AddNumBits))", SelectZeroAdapt::with_inv(SelectAdapt::with_inv(AddNumBits::from(&bv), 1, 0), 12, 3), true);
        if prop == "C02" {
            for (inv, sub) in [(3usize, 3usize), (1, 0), (12, 3)] {
                let a = SelectAdapt::with_inv(AddNumBits::from(&bv), inv, sub).verif_span_counts();
                // (the zeros are 2^32 here: only the coarse zero inventory is affordable)
                let z = if inv == 12 { SelectZeroAdapt::with_inv(AddNumBits::from(&bv), inv, sub).verif_span_counts() } else { [0; 4] };
                for c in [a, z] {
                    ctx.add("inventory_entries_u16_span", c[0] as u64);
                    ctx.add("inventory_entries_u32_span", c[1] as u64);
                    ctx.add("inventory_entries_u64_span", c[2] as u64);
                    ctx.add("spill_words", c[3] as u64);
                }
            }
        }
        chk_sel!("SelectZeroAdaptConst(SelectAdaptConst(AddNumBits))", SelectZeroAdaptConst::<_, _>::new(SelectAdaptConst::<_, _>::new(AddNumBits::from(&bv))), true);
        chk_sel!("SelectAdaptConst<1,0>(AddNumBits)", SelectAdaptConst::<_, _, 1, 0>::new(AddNumBits::from(&bv)), false);
        chk_sel!("SelectAdaptConst<2,1>(AddNumBits)", SelectAdaptConst::<_, _, 2, 1>::new(AddNumBits::from(&bv)), false);
        chk_sel!("SelectZeroAdapt(SelectAdapt(AddNumBits))", SelectZeroAdapt::with_inv(SelectAdapt::with_inv(AddNumBits::from(&bv), 2, 1), 12, 3), true);
        chk_sel!("Select9(Rank9)", Select9::new(Rank9::new(&bv)), false);
        chk_sel!("SelectZeroSmall(SelectSmall(RankSmall<1,9>))", SelectZeroSmall::<1, 9, _>::new(SelectSmall::<1, 9, _>::new(rank_small![1; &bv])), true);
        chk_sel!("SelectZeroSmall(SelectSmall(RankSmall<3,13>))", SelectZeroSmall::<3, 13, _>::new(SelectSmall::<3, 13, _>::new(rank_small![4; &bv])), true);
    }
    ctx.finish();
}

//! C06 / C14 — BitVec as a Vec<bool>: explicit-state BFS over operation
//! histories executed on the real `BitVec` (and its boxed / atomic forms),
//! with the reference model `Vec<bool>` observed in every state and the
//! footprint invariant checked on every transition.
//!
//! `--opt prop=C06` (clean seeds) or `--opt prop=C14` (dirty `from_raw_parts`
//! seeds: garbage beyond `len` in the last word and in spare words).
use std::sync::atomic::{AtomicUsize, Ordering};
use sux::prelude::*;
use vh::bfs::{bfs, Viol};
use vh::rt::*;

/// Set while a seed state is observed: the (costlier) iterator-protocol observations run there only.
static PROTO: std::sync::atomic::AtomicBool = std::sync::atomic::AtomicBool::new(false);

#[derive(Clone)]
struct St {
    words: Vec<usize>,
    len: usize,
    /// capacity of the backing Vec (not observable through the property, but part of the state the
    /// code branches on: dropping it would merge states with different futures under a defective resize)
    cap: usize,
    model: Vec<bool>,
}

#[derive(Clone, Debug)]
enum Op {
    Push(bool),
    Pop,
    Set(usize, bool),
    Resize(usize, bool),
    Fill(bool),
    Flip,
    Reset,
    ParFill(bool),
    ParFlip,
    ParReset,
    Extend3,
    ToOwned,
    BoxedSet(usize, bool),
    ViaAtomicSet(usize, bool),
    ViaAtomicSwap(usize, bool),
    ViaAtomicBoxSet(usize, bool),
    AtomicFill(bool),
    AtomicFlip,
    AtomicReset,
    AtomicParFill(bool),
    AtomicParFlip,
    AtomicParReset,
    SliceMutSet(usize, bool),
}

fn real(s: &St) -> BitVec<Vec<usize>> {
    let mut w = Vec::with_capacity(s.cap.max(s.words.len()));
    w.extend_from_slice(&s.words);
    unsafe { BitVec::from_raw_parts(w, s.len) }
}

fn idxs(len: usize) -> Vec<usize> {
    let mut v: Vec<usize> = [0usize, 1, 62, 63, 64, 65, 127, len.wrapping_sub(1), len / 2].into_iter().filter(|&i| i < len).collect();
    v.sort();
    v.dedup();
    v
}

fn ops(s: &St) -> Vec<Op> {
    let mut o = vec![Op::Push(false), Op::Push(true), Op::Pop];
    for i in idxs(s.len) {
        for b in [false, true] {
            o.push(Op::Set(i, b));
        }
    }
    for n in [0usize, 1, 63, 64, 65, 129] {
        for b in [false, true] {
            o.push(Op::Resize(n, b));
        }
    }
    o.extend([Op::Fill(false), Op::Fill(true), Op::Flip, Op::Reset, Op::Extend3, Op::ToOwned]);
    o.extend([Op::ParFill(true), Op::ParFlip, Op::ParReset]);
    let ii = idxs(s.len);
    if let (Some(&a), Some(&b)) = (ii.first(), ii.last()) {
        for i in [a, b] {
            for v in [false, true] {
                o.push(Op::BoxedSet(i, v));
                o.push(Op::ViaAtomicSet(i, v));
                o.push(Op::ViaAtomicSwap(i, v));
                o.push(Op::SliceMutSet(i, v));
            }
        }
        o.push(Op::ViaAtomicBoxSet(b, true));
        o.push(Op::ViaAtomicBoxSet(b, false));
    }
    o.extend([Op::AtomicFill(false), Op::AtomicFill(true), Op::AtomicFlip, Op::AtomicReset]);
    o.extend([Op::AtomicParFill(true), Op::AtomicParFlip, Op::AtomicParReset]);
    o
}

/// Element range an operation is documented to write (or, for shrinking
/// operations, to discard).
fn footprint(op: &Op, len: usize) -> (usize, usize) {
    match *op {
        Op::Push(_) => (len, len + 1),
        Op::Pop => (len.saturating_sub(1), len),
        Op::Set(i, _) | Op::BoxedSet(i, _) | Op::ViaAtomicSet(i, _) | Op::ViaAtomicSwap(i, _) | Op::ViaAtomicBoxSet(i, _) | Op::SliceMutSet(i, _) => (i, i + 1),
        Op::Resize(n, _) => (len.min(n), len.max(n)),
        Op::Extend3 => (len, len + 3),
        Op::ToOwned => (0, 0),
        _ => (0, len),
    }
}

fn site(op: &Op) -> &'static str {
    match op {
        Op::Push(_) => "BitVec::push",
        Op::Pop => "BitVec::pop",
        Op::Set(..) => "BitVec::set",
        Op::Resize(..) => "BitVec::resize",
        Op::Fill(_) => "BitVec::fill",
        Op::Flip => "BitVec::flip",
        Op::Reset => "BitVec::reset",
        Op::ParFill(_) => "BitVec::par_fill",
        Op::ParFlip => "BitVec::par_flip",
        Op::ParReset => "BitVec::par_reset",
        Op::Extend3 => "BitVec::extend",
        Op::ToOwned => "BitVec::to_owned",
        Op::BoxedSet(..) => "BitVec<Box>::set",
        Op::ViaAtomicSet(..) => "AtomicBitVec::set",
        Op::ViaAtomicSwap(..) => "AtomicBitVec::swap",
        Op::ViaAtomicBoxSet(..) => "AtomicBitVec<Box>::set",
        Op::AtomicFill(_) => "AtomicBitVec::fill",
        Op::AtomicFlip => "AtomicBitVec::flip",
        Op::AtomicReset => "AtomicBitVec::reset",
        Op::AtomicParFill(_) => "AtomicBitVec::par_fill",
        Op::AtomicParFlip => "AtomicBitVec::par_flip",
        Op::AtomicParReset => "AtomicBitVec::par_reset",
        Op::SliceMutSet(..) => "BitVec<&mut [usize]>::set",
    }
}

fn apply_model(m: &mut Vec<bool>, op: &Op) -> Option<bool> {
    match *op {
        Op::Push(b) => m.push(b),
        Op::Pop => return m.pop(),
        Op::Set(i, b) | Op::BoxedSet(i, b) | Op::ViaAtomicSet(i, b) | Op::ViaAtomicBoxSet(i, b) | Op::SliceMutSet(i, b) => m[i] = b,
        Op::ViaAtomicSwap(i, b) => {
            let old = m[i];
            m[i] = b;
            return Some(old);
        }
        Op::Resize(n, b) => m.resize(n, b),
        Op::Fill(b) | Op::ParFill(b) | Op::AtomicFill(b) | Op::AtomicParFill(b) => m.iter_mut().for_each(|x| *x = b),
        Op::Flip | Op::ParFlip | Op::AtomicFlip | Op::AtomicParFlip => m.iter_mut().for_each(|x| *x = !*x),
        Op::Reset | Op::ParReset | Op::AtomicReset | Op::AtomicParReset => m.iter_mut().for_each(|x| *x = false),
        Op::Extend3 => m.extend([true, false, true]),
        Op::ToOwned => {}
    }
    None
}

fn rmw_ordering(k: usize) -> Ordering {
    [Ordering::Relaxed, Ordering::Acquire, Ordering::Release, Ordering::AcqRel, Ordering::SeqCst][k % 5]
}

/// Applies the operation to the real object; returns (words, len, returned value).
fn apply_real(s: &St, op: &Op) -> (Vec<usize>, usize, Option<bool>) {
    let mut b = real(s);
    let mut ret = None;
    let o = Ordering::Relaxed;
    match *op {
        Op::Push(v) => b.push(v),
        Op::Pop => ret = b.pop(),
        Op::Set(i, v) => b.set(i, v),
        Op::Resize(n, v) => b.resize(n, v),
        Op::Fill(v) => b.fill(v),
        Op::Flip => b.flip(),
        Op::Reset => b.reset(),
        Op::ParFill(v) => b.par_fill(v),
        Op::ParFlip => b.par_flip(),
        Op::ParReset => b.par_reset(),
        Op::Extend3 => b.extend([true, false, true]),
        Op::ToOwned => b = b.to_owned(),
        Op::BoxedSet(i, v) => {
            let mut bb: BitVec<Box<[usize]>> = b.into();
            bb.set(i, v);
            b = bb.into();
        }
        // set and swap are single read-modify-write operations: every memory ordering is legal for them, and
        // which one is used depends (deterministically) on the state and the index
        Op::ViaAtomicSet(i, v) => {
            let a: AtomicBitVec = b.into();
            a.set(i, v, rmw_ordering(i + s.len));
            b = a.into();
        }
        Op::ViaAtomicSwap(i, v) => {
            let a: AtomicBitVec = b.into();
            ret = Some(a.swap(i, v, rmw_ordering(i + s.len + usize::from(v))));
            b = a.into();
        }
        Op::ViaAtomicBoxSet(i, v) => {
            let bb: BitVec<Box<[usize]>> = b.into();
            let a: AtomicBitVec<Box<[AtomicUsize]>> = bb.into();
            a.set(i, v, rmw_ordering(i + 2 * s.len));
            let bb: BitVec<Box<[usize]>> = a.into();
            b = bb.into();
        }
        Op::AtomicFill(v) => {
            let mut a: AtomicBitVec = b.into();
            a.fill(v, o);
            b = a.into();
        }
        Op::AtomicFlip => {
            let mut a: AtomicBitVec = b.into();
            a.flip(o);
            b = a.into();
        }
        Op::AtomicReset => {
            let mut a: AtomicBitVec = b.into();
            a.reset(o);
            b = a.into();
        }
        Op::AtomicParFill(v) => {
            let mut a: AtomicBitVec = b.into();
            a.par_fill(v, o);
            b = a.into();
        }
        Op::AtomicParFlip => {
            let mut a: AtomicBitVec = b.into();
            a.par_flip(o);
            b = a.into();
        }
        Op::AtomicParReset => {
            let mut a: AtomicBitVec = b.into();
            a.par_reset(o);
            b = a.into();
        }
        Op::SliceMutSet(i, v) => {
            let (mut w, l) = b.into_raw_parts();
            {
                let mut sl = unsafe { BitVec::from_raw_parts(w.as_mut_slice(), l) };
                sl.set(i, v);
            }
            b = unsafe { BitVec::from_raw_parts(w, l) };
        }
    }
    let (w, l) = b.into_raw_parts();
    (w, l, ret)
}

fn observe(prop: &str, s: &St, viol: &mut Vec<Viol>) {
    let m = &s.model;
    let n = m.len();
    let mut bad = |site: &str, what: String| viol.push((format!("{prop}|{site}|wrong-observation"), what));
    let r = guard(|| {
        let b = real(s);
        let mut out: Vec<(&'static str, String)> = vec![];
        if b.len() != n {
            out.push(("BitVec::len", format!("len {} != {}", b.len(), n)));
            return out;
        }
        for i in 0..n {
            if b.get(i) != m[i] {
                out.push(("BitVec::get", format!("get({i}) = {} expected {}", b.get(i), m[i])));
                break;
            }
            if b[i] != m[i] {
                out.push(("BitVec::index", format!("[{i}] wrong")));
                break;
            }
        }
        let it: Vec<bool> = b.iter().collect();
        if &it != m {
            out.push(("BitVec::iter", format!("iter() = {:?}.. expected {:?}..", &it[..it.len().min(8)], &m[..n.min(8)])));
        }
        let it: Vec<bool> = (&b).into_iter().collect();
        if &it != m {
            out.push(("BitVec::into_iter", "(&b).into_iter() differs".to_string()));
        }
        let ones: Vec<usize> = b.iter_ones().collect();
        let eo: Vec<usize> = (0..n).filter(|&i| m[i]).collect();
        if ones != eo {
            out.push(("BitVec::iter_ones", format!("iter_ones() = {:?} expected {:?}", &ones[..ones.len().min(6)], &eo[..eo.len().min(6)])));
        }
        let zeros: Vec<usize> = b.iter_zeros().collect();
        let ez: Vec<usize> = (0..n).filter(|&i| !m[i]).collect();
        if zeros != ez {
            out.push(("BitVec::iter_zeros", format!("iter_zeros() = {:?} expected {:?}", &zeros[..zeros.len().min(6)], &ez[..ez.len().min(6)])));
        }
        if PROTO.load(Ordering::Relaxed) {
            // the iterator protocol beyond a plain pass (nth / skip / step_by / count / last / size_hint)
            if let Some(w) = vh::models::iter_protocol(|| b.iter(), m) {
                out.push(("BitVec::iter", w));
            }
            if let Some(w) = vh::models::iter_protocol(|| (&b).into_iter(), m) {
                out.push(("BitVec::into_iter", w));
            }
            if let Some(w) = vh::models::iter_protocol(|| b.iter_ones(), &eo) {
                out.push(("BitVec::iter_ones", w));
            }
            if let Some(w) = vh::models::iter_protocol(|| b.iter_zeros(), &ez) {
                out.push(("BitVec::iter_zeros", w));
            }
        }
        if b.count_ones() != eo.len() {
            out.push(("BitVec::count_ones", format!("count_ones() = {} expected {}", b.count_ones(), eo.len())));
        }
        if b.count_zeros() != ez.len() {
            out.push(("BitVec::count_zeros", format!("count_zeros() = {} expected {}", b.count_zeros(), ez.len())));
        }
        if b.par_count_ones() != eo.len() {
            out.push(("BitVec::par_count_ones", format!("par_count_ones() = {} expected {}", b.par_count_ones(), eo.len())));
        }
        // equality
        let fresh: BitVec = m.iter().copied().collect();
        if !(b == fresh) || !(fresh == b) || b != fresh {
            out.push(("BitVec::eq", "not equal to a freshly collected vector with the same bits".to_string()));
        }
        let own = b.to_owned();
        if own != b || own.len() != n {
            out.push(("BitVec::to_owned", "to_owned() differs".to_string()));
        }
        let lw = (n / 64) * 64;
        let mut cand = vec![0usize, n / 2, n.wrapping_sub(1), lw.wrapping_sub(1), lw, lw.wrapping_sub(64), 63, 64];
        cand.sort();
        cand.dedup();
        for j in cand {
            if j < n {
                let mut d = fresh.clone();
                d.set(j, !m[j]);
                if b == d || !(b != d) {
                    out.push(("BitVec::eq", format!("equal to a vector differing in bit {j}")));
                }
            }
        }
        // a vector with the same bits but different garbage beyond len must be equal
        {
            let (mut w, l) = fresh.clone().into_raw_parts();
            if l % 64 != 0 {
                let last = w.len() - 1;
                w[last] ^= usize::MAX << (l % 64);
            }
            w.push(0x5555_5555_5555_5555);
            let d = unsafe { BitVec::from_raw_parts(w, l) };
            if !(b == d) || !(d == b) {
                out.push(("BitVec::eq", "not equal to a vector differing only beyond len".to_string()));
            }
        }
        let longer: BitVec = m.iter().copied().chain([false]).collect();
        if b == longer {
            out.push(("BitVec::eq", "equal to a longer vector".to_string()));
        }
        // atomic view
        let mut a: AtomicBitVec = b.clone().into();
        if a.len() != n {
            out.push(("AtomicBitVec::len", "len differs".to_string()));
        }
        for i in 0..n {
            if a.get(i, Ordering::Relaxed) != m[i] || a[i] != m[i] {
                out.push(("AtomicBitVec::get", format!("atomic get({i}) wrong")));
                break;
            }
        }
        if a.count_ones() != eo.len() || a.par_count_ones() != eo.len() {
            out.push(("AtomicBitVec::count_ones", format!("atomic count_ones() = {} / par {} expected {}", a.count_ones(), a.par_count_ones(), eo.len())));
        }
        let it: Vec<bool> = a.iter().collect();
        if &it != m {
            out.push(("AtomicBitVec::iter", "atomic iter() differs".to_string()));
        }
        // read-only slice backend
        {
            let sl = unsafe { BitVec::from_raw_parts(s.words.as_slice(), s.len) };
            let it: Vec<bool> = sl.iter().collect();
            if &it != m || sl.count_ones() != eo.len() || sl.iter_ones().collect::<Vec<_>>() != eo {
                out.push(("BitVec<&[usize]>", "slice-backed reads differ".to_string()));
            }
        }
        out
    });
    match r {
        Outcome::Ret(out) => {
            for (site, what) in out {
                bad(site, what);
            }
        }
        Outcome::Panic(msg) => viol.push((format!("{prop}|BitVec::<observation>|panic"), format!("observation panicked: {msg}"))),
    }
    // rejected operations: out-of-range indices must panic and leave contents unchanged
    for idx in [n, n + 1, usize::MAX] {
        let checks: [(&str, Box<dyn Fn(&mut BitVec) -> ()>); 3] = [
            ("BitVec::get", Box::new(move |b: &mut BitVec| {
                // NB: `b.get(idx)` on a `&mut BitVec` would resolve to `BitFieldSlice::get` of the
                // blanket impl for `AsRef<[W]>` types (word access), not to `BitVec::get`.
                let _ = BitVec::get(b, idx);
            })),
            ("BitVec::index", Box::new(move |b: &mut BitVec| {
                let _ = b[idx];
            })),
            ("BitVec::set", Box::new(move |b: &mut BitVec| b.set(idx, true))),
        ];
        for (site, f) in checks.iter() {
            let mut b = real(s);
            let r = guard(|| f(&mut b));
            if !r.is_panic() {
                viol.push((format!("{prop}|{site}|out-of-range-not-rejected"), format!("index {idx} (len {n}) was accepted")));
            }
            let (w, l) = b.into_raw_parts();
            if w != s.words || l != s.len {
                viol.push((format!("{prop}|{site}|rejected-op-changed-contents"), format!("index {idx} (len {n})")));
            }
        }
        let a: AtomicBitVec = real(s).into();
        for (site, r) in [
            ("AtomicBitVec::get", guard(|| {
                a.get(idx, Ordering::Relaxed);
            })),
            ("AtomicBitVec::set", guard(|| a.set(idx, true, Ordering::Relaxed))),
            ("AtomicBitVec::swap", guard(|| {
                a.swap(idx, true, Ordering::Relaxed);
            })),
            ("AtomicBitVec::index", guard(|| {
                let _ = a[idx];
            })),
        ] {
            if !r.is_panic() {
                viol.push((format!("{prop}|{site}|out-of-range-not-rejected"), format!("index {idx} (len {n}) was accepted")));
            }
        }
        let b: BitVec = a.into();
        let (w, l) = b.into_raw_parts();
        if w != s.words || l != s.len {
            viol.push((format!("{prop}|AtomicBitVec|rejected-op-changed-contents"), format!("index {idx} (len {n})")));
        }
    }
}

fn step(prop: &str, s: &St, op: &Op, viol: &mut Vec<Viol>) -> Option<St> {
    let mut model = s.model.clone();
    let mret = apply_model(&mut model, op);
    let r = guard(|| apply_real(s, op));
    let (w, l, ret) = match r {
        Outcome::Ret(x) => x,
        Outcome::Panic(m) => {
            viol.push((format!("{prop}|{}|panic", site(op)), format!("in-domain operation panicked: {m}")));
            return None;
        }
    };
    if ret != mret {
        viol.push((format!("{prop}|{}|wrong-return", site(op)), format!("returned {ret:?} expected {mret:?}")));
    }
    // footprint: bits of the old storage outside the written elements are unchanged
    if !matches!(op, Op::ToOwned) {
        let (a, b) = footprint(op, s.len);
        let nw = s.words.len().min(w.len());
        for k in 0..nw {
            let lo = k * 64;
            let mut allowed = 0usize;
            if a < lo + 64 && b > lo {
                let x = a.max(lo) - lo;
                let y = b.min(lo + 64) - lo;
                allowed = if y - x == 64 { usize::MAX } else { ((1usize << (y - x)) - 1) << x };
            }
            if (s.words[k] ^ w[k]) & !allowed != 0 {
                viol.push((
                    format!("{prop}|{}|writes-outside-footprint", site(op)),
                    format!("word {k}: {:#x} -> {:#x}, allowed mask {:#x} (len {} -> {})", s.words[k], w[k], allowed, s.len, l),
                ));
                break;
            }
        }
        if w.len() < s.words.len() && !matches!(op, Op::BoxedSet(..) | Op::ViaAtomicBoxSet(..)) {
            viol.push((format!("{prop}|{}|storage-shrunk", site(op)), format!("{} -> {} words", s.words.len(), w.len())));
        }
    }
    let cap = w.capacity();
    Some(St { words: w, len: l, cap, model })
}

fn pattern(n: usize, salt: u64) -> Vec<bool> {
    (0..n).map(|i| mix(i as u64 * 3 + salt) & 1 == 1).collect()
}

fn from_real(b: BitVec) -> St {
    let (w, l) = b.into_raw_parts();
    let cap = w.capacity();
    St { words: w, len: l, cap, model: vec![] }
}

fn seeds(prop: &str, thorough: bool) -> Vec<(String, St)> {
    let mut v: Vec<(String, St)> = vec![];
    let lens: &[usize] = if thorough { &[0, 1, 2, 63, 64, 65, 127, 128, 129] } else { &[0, 1, 63, 64, 65, 128] };
    if prop == "C06" {
        for &n in lens {
            let mut add = |name: String, b: BitVec, m: Vec<bool>| {
                let mut s = from_real(b);
                s.model = m;
                v.push((name, s));
            };
            add(format!("new({n})"), BitVec::new(n), vec![false; n]);
            add(format!("with_value({n},true)"), BitVec::with_value(n, true), vec![true; n]);
            add(format!("with_capacity({n})"), BitVec::with_capacity(n), vec![]);
            let p = pattern(n, 1);
            add(format!("collect(pattern {n})"), p.iter().copied().collect(), p.clone());
            add(format!("bit_vec![false;{n}]"), bit_vec![false; n], vec![false; n]);
            add(format!("bit_vec![true;{n}]"), bit_vec![true; n], vec![true; n]);
            add(format!("bit_vec![0;{n}]"), bit_vec![0; n], vec![false; n]);
            add(format!("bit_vec![1;{n}]"), bit_vec![1; n], vec![true; n]);
        }
        let mut s = from_real(bit_vec![]);
        s.model = vec![];
        v.push(("bit_vec![]".into(), s));
        let mut s = from_real(bit_vec![0, 1, 0, 1, 1]);
        s.model = vec![false, true, false, true, true];
        v.push(("bit_vec![0,1,0,1,1]".into(), s));
    } else {
        // dirty seeds
        let lens: &[usize] = if thorough { &[0, 1, 5, 63, 64, 65, 127, 128, 130] } else { &[0, 1, 5, 63, 64, 65, 128] };
        for &n in lens {
            let p = pattern(n, 7);
            for spare in 0..=2usize {
                for g in 0..4 {
                    let fresh: BitVec = p.iter().copied().collect();
                    let (mut w, _) = fresh.into_raw_parts();
                    w.resize(n.div_ceil(64), 0);
                    let garbage = |k: usize| -> usize {
                        match g {
                            0 => usize::MAX,
                            1 => 0xAAAA_AAAA_AAAA_AAAAusize.rotate_left(k as u32),
                            _ => 0,
                        }
                    };
                    if n % 64 != 0 {
                        let last = w.len() - 1;
                        let keep = (1usize << (n % 64)) - 1;
                        let gb = match g {
                            2 => 1usize << (n % 64), // single 1 right after the last valid bit
                            3 => 0,                  // garbage only in spare words
                            _ => garbage(last),
                        };
                        w[last] = (w[last] & keep) | (gb & !keep);
                    }
                    for k in 0..spare {
                        w.push(match g {
                            2 => 1,
                            3 => usize::MAX,
                            _ => garbage(k + 1),
                        });
                    }
                    if spare == 0 && n % 64 == 0 && g > 0 {
                        continue; // no room for garbage: same as clean
                    }
                    v.push((format!("from_raw_parts(len={n}, spare_words={spare}, garbage_kind={g})"), St { cap: w.capacity(), words: w, len: n, model: p.clone() }));
                }
            }
        }
    }
    v
}

fn main() {
    let mut ctx = Ctx::from_args();
    start_watchdog(300);
    let prop = ctx.opt("prop").unwrap_or("C06").to_string();
    let depth: u32 = ctx.opt("depth").map(|d| d.parse().unwrap()).unwrap_or(if ctx.thorough() { 6 } else { 4 });
    let max_states = 3_000_000;
    if !ctx.common_case(|| "BitVec::<seed-construction>".to_string()) {
        ctx.cap("seed construction crashed");
        ctx.finish();
        return;
    }
    let t = ctx.thorough();
    let sd = match guard(|| seeds(&prop, t)) {
        Outcome::Ret(s) => s,
        Outcome::Panic(m) => {
            ctx.violation(&format!("{prop}|BitVec::<constructors>|panic"), format!("constructing seed vectors panicked: {m}"));
            ctx.finish();
            return;
        }
    };
    for (name, seed) in sd {
        // one unit per (seed, first operation): BFS to depth-1 from the state after the first operation
        let first_ops = ops(&seed);
        // unit 0 of each seed: observe the seed itself
        if ctx.case(|| format!("BitVec seed={name} first_op=<none>")) {
            let mut viol = vec![];
            PROTO.store(true, Ordering::Relaxed);
            observe(&prop, &seed, &mut viol);
            PROTO.store(false, Ordering::Relaxed);
            ctx.states += 1;
            for (k, w) in viol {
                ctx.violation(&k, format!("{w}; in seed state"));
            }
        }
        for op in first_ops {
            if !ctx.case(|| format!("{} seed={name} first_op={op:?}", site(&op))) {
                continue;
            }
            let mut viol = vec![];
            let next = step(&prop, &seed, &op, &mut viol);
            ctx.transitions += 1;
            for (k, w) in viol.drain(..) {
                ctx.violation(&k, format!("{w}; history=[{op:?}] from seed"));
            }
            let Some(start) = next else { continue };
            if start.len % 64 != 0 || start.words.len() > start.len.div_ceil(64) {
                ctx.nontrivial();
            }
            let p = prop.clone();
            let p2 = prop.clone();
            bfs(
                &mut ctx,
                start,
                depth - 1,
                max_states,
                |s: &St| (s.words.clone(), s.len, s.cap),
                ops,
                move |s, o, v| step(&p, s, o, v),
                move |s, v| observe(&p2, s, v),
            );
        }
    }
    ctx.finish();
}

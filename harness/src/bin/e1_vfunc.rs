//! C07 / C08 — static functions and filters: every key-set size in a range x a
//! deviation-bounded lattice of builder configurations, against a plain
//! key -> value map; false-positive counting on a fixed probe set (C08).
//!
//! `--opt prop=C07|C08`. With `--opt traces=1` every real `par_solve` run logs
//! its protocol events (verif hook) and the log is replayed through the E5
//! model (`vh::proto`).
use dsi_progress_logger::no_logging;
use std::io::{BufReader, Cursor};
use sux::func::shard_edge::*;
use sux::prelude::*;
use common_traits::CastableInto;
use epserde::traits::ZeroCopy;
use sux::traits::bit_field_slice::Word;
use sux::utils::{FromIntoIterator, LineLender, Sig, ToSig};
use vh::proto;
use vh::rt::*;

#[derive(Clone, Copy, Debug, PartialEq)]
enum Hint {
    Absent,
    Exact,
    Half,
    DoublePlus7,
    K400,
    K800,
    Zero,
}

#[derive(Clone, Copy, Debug, PartialEq)]
enum Vals {
    Hash12,
    AllZero,
    AllMax,
    Identity,
    /// pseudo-random values of exactly this many bits (the first one has all of them set)
    Wide(u32),
}

#[derive(Clone, Debug)]
struct Cfg {
    offline: bool,
    low_mem: Option<bool>,
    threads: usize,
    eps: f64,
    log2_buckets: Option<u32>,
    seed: u64,
    hint: Hint,
    vals: Vals,
    check_dups: bool,
}

impl Default for Cfg {
    fn default() -> Self {
        Cfg { offline: false, low_mem: None, threads: 8, eps: 0.001, log2_buckets: None, seed: 0, hint: Hint::Exact, vals: Vals::Hash12, check_dups: false }
    }
}

impl Cfg {
    fn describe(&self) -> String {
        let d = Cfg::default();
        let mut v = vec![];
        if self.offline {
            v.push("offline".to_string());
        }
        if self.low_mem.is_some() {
            v.push(format!("low_mem={:?}", self.low_mem.unwrap()));
        }
        if self.threads != d.threads {
            v.push(format!("threads={}", self.threads));
        }
        if self.eps != d.eps {
            v.push(format!("eps={}", self.eps));
        }
        if let Some(l) = self.log2_buckets {
            v.push(format!("log2_buckets={l}"));
        }
        if self.seed != 0 {
            v.push(format!("seed={}", self.seed));
        }
        if self.hint != d.hint {
            v.push(format!("hint={:?}", self.hint));
        }
        if self.vals != d.vals {
            v.push(format!("vals={:?}", self.vals));
        }
        if self.check_dups {
            v.push("check_dups".into());
        }
        if v.is_empty() {
            "default".into()
        } else {
            v.join(",")
        }
    }
    fn hint_value(&self, n: usize) -> Option<usize> {
        match self.hint {
            Hint::Absent => None,
            Hint::Exact => Some(n),
            Hint::Half => Some(n.div_ceil(2)),
            Hint::DoublePlus7 => Some(2 * n + 7),
            Hint::K400 => Some(400_000),
            Hint::K800 => Some(800_000),
            Hint::Zero => Some(0),
        }
    }
}

macro_rules! configure {
    ($b:expr, $cfg:expr, $n:expr) => {{
        let mut b = $b.offline($cfg.offline).max_num_threads($cfg.threads).eps($cfg.eps).seed($cfg.seed).check_dups($cfg.check_dups);
        if let Some(x) = $cfg.low_mem {
            b = b.low_mem(x);
        }
        if let Some(l) = $cfg.log2_buckets {
            b = b.log2_buckets(l);
        }
        if let Some(h) = $cfg.hint_value($n) {
            b = b.expected_num_keys(h);
        }
        b
    }};
}

fn key(i: usize) -> usize {
    i * 3 + 7
}
fn skey(i: usize) -> String {
    format!("key-{i}-{}", i % 7)
}

fn val_u128(v: Vals, i: usize, bits: u32) -> u128 {
    let m = if bits >= 128 { u128::MAX } else { (1u128 << bits) - 1 };
    match v {
        Vals::Hash12 => (mix(i as u64) as u128 & 0xFFF) & m,
        Vals::AllZero => 0,
        Vals::AllMax => m,
        Vals::Identity => i as u128 & m,
        Vals::Wide(b) => {
            let wm = if b >= 128 { u128::MAX } else { (1u128 << b) - 1 };
            (if i == 0 { wm } else { (mix(i as u64) as u128) << 64 | mix(i as u64 + 77) as u128 }) & wm & m
        }
    }
}

/// The unaligned accessors exist on bit-field backends only and demand a value width of at most
/// BITS - 6, or BITS - 4, or BITS: `None` when the backend has no such accessor.
trait Unal<T: ?Sized, W> {
    fn unal(&self, k: &T) -> Option<W>;
}
impl<T: ?Sized + ToSig<S>, W: ZeroCopy + Word, S: Sig, E: ShardEdge<S, 3>> Unal<T, W> for VFunc<T, W, BitFieldVec<W>, S, E> {
    fn unal(&self, k: &T) -> Option<W> {
        Some(self.get_unaligned(k))
    }
}
impl<T: ?Sized + ToSig<S>, W: ZeroCopy + Word, S: Sig, E: ShardEdge<S, 3>> Unal<T, W> for VFunc<T, W, Box<[W]>, S, E>
where
    Box<[W]>: BitFieldSlice<W>,
{
    fn unal(&self, _k: &T) -> Option<W> {
        None
    }
}
trait UnalF<T: ?Sized> {
    fn contains_unal(&self, k: &T) -> Option<bool>;
}
impl<T: ?Sized + ToSig<S>, W: ZeroCopy + Word, S: Sig, E: ShardEdge<S, 3>> UnalF<T> for VFilter<W, VFunc<T, W, BitFieldVec<W>, S, E>>
where
    u64: CastableInto<W>,
{
    fn contains_unal(&self, k: &T) -> Option<bool> {
        Some(self.contains_unaligned(k))
    }
}
impl<T: ?Sized + ToSig<S>, W: ZeroCopy + Word, S: Sig, E: ShardEdge<S, 3>> UnalF<T> for VFilter<W, VFunc<T, W, Box<[W]>, S, E>>
where
    Box<[W]>: BitFieldSlice<W>,
{
    fn contains_unal(&self, _k: &T) -> Option<bool> {
        None
    }
}
fn unaligned_ok(width: usize, bits: usize) -> bool {
    width + 6 <= bits || width + 4 == bits || width == bits
}

/// A key source over key(0..n) that counts how many times it has been rewound.
struct CountingKeys {
    n: usize,
    pos: usize,
    cur: usize,
    rewinds: std::sync::Arc<std::sync::atomic::AtomicUsize>,
}
impl<'lend> lender::Lending<'lend> for CountingKeys {
    type Lend = Result<&'lend usize, std::convert::Infallible>;
}
impl lender::Lender for CountingKeys {
    fn next(&mut self) -> Option<lender::Lend<'_, Self>> {
        if self.pos >= self.n {
            return None;
        }
        self.cur = key(self.pos);
        self.pos += 1;
        Some(Ok(&self.cur))
    }
}
impl sux::utils::RewindableIoLender<usize> for CountingKeys {
    type Error = std::convert::Infallible;
    fn rewind(mut self) -> Result<Self, Self::Error> {
        self.rewinds.fetch_add(1, std::sync::atomic::Ordering::SeqCst);
        self.pos = 0;
        Ok(self)
    }
}

/// Seed sweep in the sharded linear regime: some seeds make the largest shard exceed the 1% slack, so the
/// first attempt is rejected before solving (MaxShardTooBig) and the sources are rewound without any
/// solver run; the number of such attempts is reported (passes over the keys minus par_solve runs).
fn seed_sweep(r: &mut Runner, filter: bool, t: bool) {
    let sizes: &[usize] = if t { &[400_928, 799_999] } else { &[400_928] };
    let nseeds = if t { 64 } else { 24 };
    for &n in sizes {
        for seed in 0..nseeds {
            let hint = if seed % 2 == 0 { Hint::Absent } else { Hint::Exact };
            let cfg = Cfg { seed, hint, ..Cfg::default() };
            let what = if filter { "try_build_filter<Box<[u8]>>" } else { "try_build_func<BitFieldVec<usize>>" };
            if !r.ctx.case(|| format!("VBuilder::{what} seed sweep n={n} cfg={}", cfg.describe())) {
                continue;
            }
            r.ctx.nontrivial();
            let rewinds = std::sync::Arc::new(std::sync::atomic::AtomicUsize::new(0));
            let keys = CountingKeys { n, pos: 0, cur: 0, rewinds: rewinds.clone() };
            EVENTS.lock().unwrap().clear();
            let res = guard(|| -> Result<(usize, usize), String> {
                if filter {
                    let b = configure!(VBuilder::<u8, Box<[u8]>>::default(), &cfg, n);
                    let f = b.try_build_filter(keys, no_logging![]).map_err(|e| format!("{e:#}"))?;
                    Ok((f.len(), (0..n).filter(|&i| !f.contains(key(i))).count()))
                } else {
                    let b = configure!(VBuilder::<usize, BitFieldVec<usize>>::default(), &cfg, n);
                    let f = b.try_build_func(keys, FromIntoIterator::from((0..n).map(|i| i % 1000)), no_logging![]).map_err(|e| format!("{e:#}"))?;
                    Ok((f.len(), (0..n).filter(|&i| f.get(key(i)) != i % 1000).count()))
                }
            });
            let starts = EVENTS.lock().unwrap().iter().filter(|e| e.0 == "ps.start").count();
            let passes = rewinds.load(std::sync::atomic::Ordering::SeqCst) + 1;
            r.ctx.add("sweep_attempts_rejected_before_solving", passes.saturating_sub(starts) as u64);
            r.after_build(&format!("seed sweep n={n} seed={seed}"));
            let p = if filter { "C08" } else { "C07" };
            match res {
                Outcome::Panic(m) => r.ctx.violation(&format!("{p}|VBuilder::{what}|panic"), format!("n={n} cfg={}: {m}", cfg.describe())),
                Outcome::Ret(Err(e)) => r.ctx.violation(&format!("{p}|VBuilder::{what}|error"), format!("n={n} cfg={}: {e}", cfg.describe())),
                Outcome::Ret(Ok((len, wrong))) => {
                    if len != n || wrong > 0 {
                        r.ctx.violation(
                            &format!("{p}|VBuilder::{what}|wrong-after-retry"),
                            format!("n={n} cfg={} ({passes} passes over the keys, {starts} solver runs): len() = {len}, {wrong} keys wrong / not contained", cfg.describe()),
                        );
                    }
                }
            }
        }
    }
}

/// A key type whose signatures the harness decides: under the FIRST seed a build asks for, keys 2j and
/// 2j+1 (j < PAIRS) get the same signature, under every later seed all signatures are distinct. The first
/// attempt of a build over such keys therefore fails in a chosen way (duplicate edge: unpeelable, and
/// unsolvable when the two values differ; duplicate signature when duplicates are checked) and the
/// retry must succeed - a deterministic deviation from the default environment answer "the first seed works".
#[derive(Clone, Copy, Debug)]
struct Crafted(u64);
static CRAFT_FIRST: std::sync::atomic::AtomicU64 = std::sync::atomic::AtomicU64::new(0);
static CRAFT_SEEN: std::sync::atomic::AtomicBool = std::sync::atomic::AtomicBool::new(false);
static CRAFT_PAIRS: std::sync::atomic::AtomicU64 = std::sync::atomic::AtomicU64::new(0);
fn crafted_sig(k: u64, seed: u64) -> [u64; 2] {
    use std::sync::atomic::Ordering::SeqCst;
    if !CRAFT_SEEN.swap(true, SeqCst) {
        CRAFT_FIRST.store(seed, SeqCst);
    }
    let base = if seed == CRAFT_FIRST.load(SeqCst) && k < 2 * CRAFT_PAIRS.load(SeqCst) { k & !1 } else { k };
    [mix(base ^ seed), mix(base.wrapping_add(0x9E37_79B9_7F4A_7C15) ^ seed.rotate_left(29))]
}
impl ToSig<[u64; 2]> for Crafted {
    fn to_sig(key: impl std::borrow::Borrow<Self>, seed: u64) -> [u64; 2] {
        crafted_sig(key.borrow().0, seed)
    }
}
impl ToSig<[u64; 1]> for Crafted {
    fn to_sig(key: impl std::borrow::Borrow<Self>, seed: u64) -> [u64; 1] {
        [crafted_sig(key.borrow().0, seed)[0]]
    }
}

/// Counts the passes over the crafted keys.
struct CraftedKeys {
    n: usize,
    pos: usize,
    cur: Crafted,
    passes: std::sync::Arc<std::sync::atomic::AtomicUsize>,
}
impl<'lend> lender::Lending<'lend> for CraftedKeys {
    type Lend = Result<&'lend Crafted, std::convert::Infallible>;
}
impl lender::Lender for CraftedKeys {
    fn next(&mut self) -> Option<lender::Lend<'_, Self>> {
        if self.pos >= self.n {
            return None;
        }
        self.cur = Crafted(self.pos as u64);
        self.pos += 1;
        Some(Ok(&self.cur))
    }
}
impl sux::utils::RewindableIoLender<Crafted> for CraftedKeys {
    type Error = std::convert::Infallible;
    fn rewind(mut self) -> Result<Self, Self::Error> {
        self.pos = 0;
        self.passes.fetch_add(1, std::sync::atomic::Ordering::SeqCst);
        Ok(self)
    }
}

macro_rules! crafted_case {
    ($r:expr, $filter:expr, $name:expr, $n:expr, $pairs:expr, $cfg:expr, W = $W:ty, D = $D:ty, S = $S:ty, E = $E:ty) => {{
        let r: &mut Runner = $r;
        let (n, pairs, cfg, name, filter): (usize, u64, &Cfg, &str, bool) = ($n, $pairs, $cfg, $name, $filter);
        let p = if filter { "C08" } else { "C07" };
        if r.ctx.case(|| format!("VBuilder::<first-attempt-fails-by-construction> {} {name} n={n} colliding_pairs={pairs} cfg={}", if filter { "filter" } else { "function" }, cfg.describe())) {
            r.ctx.nontrivial();
            CRAFT_SEEN.store(false, std::sync::atomic::Ordering::SeqCst);
            CRAFT_PAIRS.store(pairs, std::sync::atomic::Ordering::SeqCst);
            let passes = std::sync::Arc::new(std::sync::atomic::AtomicUsize::new(1));
            let keys = CraftedKeys { n, pos: 0, cur: Crafted(0), passes: passes.clone() };
            let res = guard(|| -> Result<(usize, usize), String> {
                let b = configure!(VBuilder::<$W, $D, $S, $E>::default(), cfg, n);
                crafted_case!(@go filter, b, keys, n, $W)
            });
            r.after_build(&format!("crafted {name} n={n}"));
            let passes = passes.load(std::sync::atomic::Ordering::SeqCst);
            match res {
                Outcome::Panic(m) => r.ctx.violation(&format!("{p}|VBuilder::<retry-after-failed-attempt>|panic"), format!("{name} n={n} pairs={pairs} cfg={}: {m}", cfg.describe())),
                Outcome::Ret(Err(e)) => r.ctx.violation(&format!("{p}|VBuilder::<retry-after-failed-attempt>|error"), format!("{name} n={n} pairs={pairs} cfg={}: {e}", cfg.describe())),
                Outcome::Ret(Ok((len, wrong))) => {
                    r.ctx.add("crafted_builds_with_retry", u64::from(passes >= 2));
                    if len != n || wrong > 0 {
                        r.ctx.violation(&format!("{p}|VBuilder::<retry-after-failed-attempt>|wrong-values"), format!("{name} n={n} pairs={pairs} cfg={} ({passes} passes): len() = {len}, {wrong} keys wrong / not contained", cfg.describe()));
                    }
                }
            }
        }
    }};
    (@go $filter:expr, $b:expr, $keys:expr, $n:expr, $W:ty) => {{
        let n: usize = $n;
        if $filter {
            let f = $b.try_build_filter($keys, no_logging![]).map_err(|e| format!("{e:#}"))?;
            Ok((f.len(), (0..n).filter(|&i| !f.contains(Crafted(i as u64))).count()))
        } else {
            let f = $b.try_build_func($keys, FromIntoIterator::from((0..n).map(|i| (i % 251) as $W)), no_logging![]).map_err(|e| format!("{e:#}"))?;
            Ok((f.len(), (0..n).filter(|&i| f.get(Crafted(i as u64)) != (i % 251) as $W).count()))
        }
    }};
}

/// Builds whose first attempt fails by construction, for every solver path (lazy Gaussian elimination, the
/// three peelers, sharded and unsharded) and failure kind.
fn crafted_failures(r: &mut Runner, filter: bool, t: bool) {
    let d = Cfg::default();
    let cfgs = [
        d.clone(),
        Cfg { threads: 1, ..d.clone() },
        Cfg { check_dups: true, ..d.clone() },
        Cfg { low_mem: Some(true), ..d.clone() },
        Cfg { low_mem: Some(false), threads: 2, ..d.clone() },
        Cfg { offline: true, hint: Hint::Absent, ..d.clone() },
    ];
    let mut sizes: Vec<usize> = vec![2, 3, 10, 1000, 100_001, 150_000];
    if t {
        sizes.extend([800_001, 1_000_000]);
    }
    for &n in &sizes {
        for pairs in [1u64, 3] {
            if 2 * pairs as usize > n {
                continue;
            }
            for (ci, c) in cfgs.iter().enumerate() {
                if n > 1000 && pairs == 3 && ci != 0 {
                    continue;
                }
                crafted_case!(r, filter, "u8,Box<[u8]>,[u64;2],FuseLge3Shards", n, pairs, c, W = u8, D = Box<[u8]>, S = [u64; 2], E = FuseLge3Shards);
                crafted_case!(r, filter, "u8,Box<[u8]>,[u64;1],FuseLge3NoShards", n, pairs, c, W = u8, D = Box<[u8]>, S = [u64; 1], E = FuseLge3NoShards);
                if n <= 150_000 {
                    crafted_case!(r, filter, "u8,Box<[u8]>,[u64;2],FuseLge3NoShards", n, pairs, c, W = u8, D = Box<[u8]>, S = [u64; 2], E = FuseLge3NoShards);
                    crafted_case!(r, filter, "u8,Box<[u8]>,[u64;2],FuseLge3FullSigs", n, pairs, c, W = u8, D = Box<[u8]>, S = [u64; 2], E = FuseLge3FullSigs);
                }
                if n <= 1000 && n != 2 {
                    crafted_case!(r, filter, "u8,Box<[u8]>,[u64;2],Mwhc3Shards", n, pairs, c, W = u8, D = Box<[u8]>, S = [u64; 2], E = Mwhc3Shards);
                }
            }
        }
    }
}

/// Schedule perturbation of the real solver threads: a crafted build (first attempt failing by duplicate
/// signature / unsolvable shard, or succeeding) is run once per
/// event index (0..48, thorough 0..150) with the thread raising that event held for 25 ms. Every run must give the right result and
/// every event log must be accepted by the protocol model. This is a systematic one-delay sweep, not an
/// exhaustive exploration: the OS still schedules the threads.
fn perturbed_schedules(r: &mut Runner, t: bool) {
    let d = Cfg::default();
    let scenarios: Vec<(usize, u64, Cfg)> = vec![
        (200_000, 1, Cfg { threads: 2, check_dups: true, ..d.clone() }),
        (200_000, 1, Cfg { threads: 2, ..d.clone() }),
        (200_000, 0, Cfg { threads: 3, ..d.clone() }),
        (200_000, 1, Cfg { threads: 8, check_dups: true, ..d.clone() }),
        (100_001, 1, Cfg { threads: 1, check_dups: true, ..d.clone() }),
    ];
    for (si, (n, pairs, cfg)) in scenarios.into_iter().enumerate() {
        if !t && (si == 2 || si == 4) {
            continue;
        }
        // a build over 4 shards raises about 25 events per attempt: indices beyond the actual count delay nothing
        // (a fixed number keeps the case numbering identical in every worker process)
        let m = if t { 150 } else { 48 };
        for i in 0..m {
            DELAY_AT.store(i, std::sync::atomic::Ordering::SeqCst);
            EVENT_NO.store(0, std::sync::atomic::Ordering::SeqCst);
            let c2 = cfg.clone();
            crafted_case!(r, false, &format!("u8,Box<[u8]>,[u64;2],FuseLge3Shards held-at-event-{i}"), n, pairs, &c2, W = u8, D = Box<[u8]>, S = [u64; 2], E = FuseLge3Shards);
            r.ctx.count("perturbed_schedule_runs");
        }
        DELAY_AT.store(usize::MAX, std::sync::atomic::Ordering::SeqCst);
    }
}

/// Event log of the par_solve hooks (one build at a time per process).
static EVENTS: std::sync::Mutex<Vec<(&'static str, usize, usize)>> = std::sync::Mutex::new(Vec::new());
/// Index (in order of arrival) of the protocol event at which the thread raising it is held for a while;
/// usize::MAX = none. Holding one thread at one protocol point lets the others run ahead: a one-deviation
/// perturbation of the schedule of the real, otherwise uncontrolled, solver threads.
static DELAY_AT: std::sync::atomic::AtomicUsize = std::sync::atomic::AtomicUsize::new(usize::MAX);
static EVENT_NO: std::sync::atomic::AtomicUsize = std::sync::atomic::AtomicUsize::new(0);
fn on_event(site: &'static str, a: usize, b: usize) {
    EVENTS.lock().unwrap().push((site, a, b));
    let i = EVENT_NO.fetch_add(1, std::sync::atomic::Ordering::SeqCst);
    if i == DELAY_AT.load(std::sync::atomic::Ordering::SeqCst) {
        std::thread::sleep(std::time::Duration::from_millis(25));
    }
}

struct Runner<'a> {
    ctx: &'a mut Ctx,
    prop: String,
    traces: bool,
}

impl Runner<'_> {
    fn after_build(&mut self, what: &str) {
        let ev = std::mem::take(&mut *EVENTS.lock().unwrap());
        if !self.traces {
            return;
        }
        for tr in proto::split_traces(&ev) {
            self.ctx.count("traces_validated");
            self.ctx.add("trace_events", tr.len() as u64);
            if let Err(e) = proto::replay(&tr) {
                self.ctx.violation(&format!("{}|VBuilder::par_solve|trace-not-accepted-by-model", self.prop), format!("{what}: {e}"));
            }
        }
    }
}

/// Builds a function with the given type-level configuration and checks it.
macro_rules! func_case {
    ($r:expr, $name:expr, $n:expr, $cfg:expr, keys = $kk:ident, W = $W:ty, D = $D:ty, S = $S:ty, E = $E:ty) => {{
        let r: &mut Runner = $r;
        let n: usize = $n;
        let cfg: &Cfg = $cfg;
        let name: &str = $name;
        if mwhc_known_hang(name, n) {
            // known finding (non-terminating build), re-observed by hang_probes() with a short limit
        } else if r.ctx.case(|| format!("VBuilder::try_build_func<{name}> n={n} cfg={}", cfg.describe())) {
            if n >= 2 {
                r.ctx.nontrivial();
            }
            let bits = <$W>::BITS as u32;
            let vals: Vec<$W> = (0..n).map(|i| val_u128(cfg.vals, i, bits) as $W).collect();
            let res = guard(|| {
                let b = configure!(VBuilder::<$W, $D, $S, $E>::default(), cfg, n);
                let values = FromIntoIterator::from(vals.clone());
                func_case!(@build b, $kk, n, values)
            });
            r.after_build(&format!("{name} n={n} cfg={}", cfg.describe()));
            match res {
                Outcome::Panic(m) => r.ctx.violation(&format!("C07|VBuilder::try_build_func<{name}>|panic"), format!("n={n} cfg={}: {m}", cfg.describe())),
                Outcome::Ret(Err(e)) => r.ctx.violation(&format!("C07|VBuilder::try_build_func<{name}>|error"), format!("n={n} cfg={}: returned Err({e})", cfg.describe())),
                Outcome::Ret(Ok(f)) => {
                    let chk = guard(|| {
                        let mut wrong = 0usize;
                        let mut first = None;
                        for i in 0..n {
                            let g = func_case!(@get f, $kk, i);
                            if g != vals[i] {
                                wrong += 1;
                                first.get_or_insert((i, g));
                            }
                        }
                        // the unaligned accessor, where the backend has one and the value width admits it
                        let width = vals.iter().map(|v| (<$W>::BITS - v.leading_zeros()) as usize).max().unwrap_or(0);
                        if unaligned_ok(width, <$W>::BITS as usize) {
                            for i in 0..n {
                                if let Some(g) = func_case!(@unal f, $kk, i) {
                                    if g != vals[i] {
                                        wrong += 1;
                                        first.get_or_insert((i, g));
                                    }
                                }
                            }
                        }
                        (f.len(), wrong, first)
                    });
                    match chk {
                        Outcome::Panic(m) => r.ctx.violation(&format!("C07|VFunc::get<{name}>|panic"), format!("n={n} cfg={}: {m}", cfg.describe())),
                        Outcome::Ret((len, wrong, first)) => {
                            if len != n {
                                r.ctx.violation(&format!("C07|VFunc::len<{name}>|wrong-answer"), format!("n={n} cfg={}: len() = {len}", cfg.describe()));
                            }
                            if wrong > 0 {
                                let (i, g) = first.unwrap();
                                r.ctx.violation(&format!("C07|VFunc::get<{name}>|wrong-values"), format!("n={n} cfg={}: {wrong}/{n} keys map to wrong values, e.g. key #{i} -> {g:?} expected {:?}", cfg.describe(), vals[i]));
                            }
                        }
                    }
                }
            }
        }
    }};
    (@build $b:expr, usize, $n:expr, $values:expr) => { $b.try_build_func(FromIntoIterator::from((0..$n).map(key)), $values, no_logging![]) };
    (@build $b:expr, u64, $n:expr, $values:expr) => { $b.try_build_func(FromIntoIterator::from((0..$n).map(|i| key(i) as u64)), $values, no_logging![]) };
    (@build $b:expr, string, $n:expr, $values:expr) => { $b.try_build_func(FromIntoIterator::from((0..$n).map(skey).collect::<Vec<String>>()), $values, no_logging![]) };
    (@build $b:expr, str, $n:expr, $values:expr) => {{
        let text: String = (0..$n).map(|i| skey(i) + "\n").collect();
        $b.try_build_func::<str>(LineLender::new(BufReader::new(Cursor::new(text.into_bytes()))), $values, no_logging![])
    }};
    (@unal $f:expr, usize, $i:expr) => { $f.unal(&key($i)) };
    (@unal $f:expr, u64, $i:expr) => { $f.unal(&(key($i) as u64)) };
    (@unal $f:expr, string, $i:expr) => { $f.unal(&skey($i)) };
    (@unal $f:expr, str, $i:expr) => { $f.unal(skey($i).as_str()) };
    (@get $f:expr, usize, $i:expr) => { $f.get(key($i)) };
    (@get $f:expr, u64, $i:expr) => { $f.get(key($i) as u64) };
    (@get $f:expr, string, $i:expr) => { $f.get(skey($i)) };
    (@get $f:expr, str, $i:expr) => { $f.get(skey($i).as_str()) };
}

/// Builds a filter and checks membership, len, hash_bits and (optionally) the false-positive count.
macro_rules! filter_case {
    ($r:expr, $name:expr, $n:expr, $cfg:expr, $bits:expr, $fp:expr, W = $W:ty, boxed = $boxed:tt, S = $S:ty, E = $E:ty) => {{
        let r: &mut Runner = $r;
        let n: usize = $n;
        let cfg: &Cfg = $cfg;
        let name: &str = $name;
        let b_bits: usize = $bits;
        let fp: bool = $fp;
        if mwhc_known_hang(name, n) {
            // known finding (non-terminating MWHC build over very few keys), see hang_probes()
        } else if r.ctx.case(|| format!("VBuilder::try_build_filter<{name}> n={n} bits={b_bits} cfg={} count_false_positives={fp}", cfg.describe())) {
            if n >= 2 {
                r.ctx.nontrivial();
            }
            let res = guard(|| {
                let b = configure!(VBuilder::<$W, filter_case!(@D $boxed, $W), $S, $E>::default(), cfg, n);
                let keys = FromIntoIterator::from((0..n).map(key));
                filter_case!(@build $boxed, b, keys, b_bits)
            });
            r.after_build(&format!("filter {name} n={n} bits={b_bits}"));
            match res {
                Outcome::Panic(m) => r.ctx.violation(&format!("C08|VBuilder::try_build_filter<{name}>|panic"), format!("n={n} bits={b_bits} cfg={}: {m}", cfg.describe())),
                Outcome::Ret(Err(e)) => r.ctx.violation(&format!("C08|VBuilder::try_build_filter<{name}>|error"), format!("n={n} bits={b_bits} cfg={}: Err({e})", cfg.describe())),
                Outcome::Ret(Ok(f)) => {
                    let chk = guard(|| {
                        let mut fneg = 0usize;
                        for i in 0..n {
                            if !f.contains(key(i)) || !f[key(i)] {
                                fneg += 1;
                            } else if unaligned_ok(b_bits, <$W>::BITS as usize) && f.contains_unal(&key(i)) == Some(false) {
                                fneg += 1;
                            }
                        }
                        let mut fpos = 0usize;
                        let probes = 1usize << 16;
                        if fp {
                            // probe keys are never members: members are 7 mod 3 = 1, probes are 0 mod 3
                            for j in 0..probes {
                                let c = f.contains(3 * (j + 1_000_000));
                                if c {
                                    fpos += 1;
                                }
                                if unaligned_ok(b_bits, <$W>::BITS as usize) && f.contains_unal(&(3 * (j + 1_000_000))).is_some_and(|u| u != c) {
                                    fneg += 1; // the two accessors disagree on a probe
                                }
                            }
                        }
                        (f.len(), f.hash_bits(), fneg, fpos, probes)
                    });
                    match chk {
                        Outcome::Panic(m) => r.ctx.violation(&format!("C08|VFilter::contains<{name}>|panic"), format!("n={n} bits={b_bits}: {m}")),
                        Outcome::Ret((len, hb, fneg, fpos, probes)) => {
                            if len != n {
                                r.ctx.violation(&format!("C08|VFilter::len<{name}>|wrong-answer"), format!("n={n}: len() = {len}"));
                            }
                            if hb as usize != b_bits {
                                r.ctx.violation(&format!("C08|VFilter::hash_bits<{name}>|wrong-answer"), format!("hash_bits() = {hb} expected {b_bits}"));
                            }
                            if fneg > 0 {
                                r.ctx.violation(&format!("C08|VFilter::contains<{name}>|false-negatives"), format!("n={n} bits={b_bits} cfg={}: {fneg}/{n} inserted keys are not contained", cfg.describe()));
                            }
                            if fp {
                                let p = 0.5f64.powi(b_bits as i32);
                                let mean = probes as f64 * p;
                                let sd = (probes as f64 * p * (1.0 - p)).sqrt();
                                let (lo, hi) = (mean - 6.0 * sd - 2.0, mean + 6.0 * sd + 2.0);
                                r.ctx.count("fp_evaluations");
                                if (fpos as f64) < lo || (fpos as f64) > hi {
                                    r.ctx.violation(&format!("C08|VFilter::contains<{name}>|false-positive-rate"), format!("n={n} bits={b_bits}: {fpos} of {probes} non-members are contained, expected {mean:.1} (accepted band [{lo:.1}, {hi:.1}])"));
                                }
                            }
                        }
                    }
                }
            }
        }
    }};
    (@D true, $W:ty) => { Box<[$W]> };
    (@D false, $W:ty) => { BitFieldVec<$W> };
    (@build true, $b:expr, $keys:expr, $bits:expr) => { $b.try_build_filter($keys, no_logging![]) };
    (@build false, $b:expr, $keys:expr, $bits:expr) => { $b.try_build_filter($keys, $bits, no_logging![]) };
}

/// MWHC graphs over very few keys that can never be peeled (see known_findings.json).
fn mwhc_known_hang(name: &str, n: usize) -> bool {
    (name.ends_with("Mwhc3NoShards") && [2usize, 4, 9].contains(&n)) || (name.ends_with("Mwhc3Shards") && n == 2)
}

/// Child-process entry: build one MWHC function and exit.
fn hang_probe_child(spec: &str) {
    let (which, n) = spec.split_once(':').unwrap();
    let n: usize = n.parse().unwrap();
    if which == "noshards" {
        let f = VBuilder::<usize, Box<[usize]>, [u64; 2], Mwhc3NoShards>::default().expected_num_keys(n).try_build_func(FromIntoIterator::from((0..n).map(key)), FromIntoIterator::from(0..n), no_logging![]).unwrap();
        assert_eq!(f.len(), n);
    } else {
        let f = VBuilder::<usize, BitFieldVec<usize>, [u64; 2], Mwhc3Shards>::default().expected_num_keys(n).try_build_func(FromIntoIterator::from((0..n).map(key)), FromIntoIterator::from(0..n), no_logging![]).unwrap();
        assert_eq!(f.len(), n);
    }
}

/// Re-observes the known non-terminating MWHC builds in a child process with a 3 s limit.
fn hang_probes(r: &mut Runner) {
    for (which, n) in [("noshards", 2usize), ("noshards", 4), ("noshards", 9), ("shards", 2)] {
        let name = if which == "noshards" { "Mwhc3NoShards" } else { "Mwhc3Shards" };
        if !r.ctx.case(|| format!("VBuilder::try_build_func<{name}> n={n} (known non-terminating build, child process with a 3 s limit)")) {
            continue;
        }
        let mut child = std::process::Command::new(std::env::current_exe().unwrap())
            .args(["--opt", &format!("hangprobe={which}:{n}")])
            .stdout(std::process::Stdio::null())
            .stderr(std::process::Stdio::null())
            .spawn()
            .expect("cannot spawn hang probe");
        let t0 = std::time::Instant::now();
        let mut done = false;
        while t0.elapsed().as_secs_f64() < 3.0 {
            if child.try_wait().unwrap().is_some() {
                done = true;
                break;
            }
            std::thread::sleep(std::time::Duration::from_millis(20));
        }
        if !done {
            let _ = child.kill();
            let _ = child.wait();
            r.ctx.violation(&format!("C07|VBuilder::try_build_func<{name}>|nonterminating-build-n={n}"), format!("building an MWHC function over {n} keys did not finish within 3 s (the graph can never be peeled, the builder retries forever)"));
        }
    }
}

fn deviations() -> Vec<Cfg> {
    let d = Cfg::default();
    let mut v = vec![];
    v.push(Cfg { offline: true, ..d.clone() });
    v.push(Cfg { low_mem: Some(true), ..d.clone() });
    v.push(Cfg { low_mem: Some(false), ..d.clone() });
    for t in [1, 2, 3] {
        v.push(Cfg { threads: t, ..d.clone() });
    }
    for e in [0.01, 0.1] {
        v.push(Cfg { eps: e, ..d.clone() });
    }
    for l in [0, 4] {
        v.push(Cfg { log2_buckets: Some(l), hint: Hint::Absent, ..d.clone() });
    }
    for s in [1, 2, 3] {
        v.push(Cfg { seed: s, ..d.clone() });
    }
    for h in [Hint::Absent, Hint::Half, Hint::DoublePlus7, Hint::K400, Hint::K800, Hint::Zero] {
        v.push(Cfg { hint: h, ..d.clone() });
    }
    for x in [Vals::AllZero, Vals::AllMax, Vals::Identity] {
        v.push(Cfg { vals: x, ..d.clone() });
    }
    v.push(Cfg { check_dups: true, ..d.clone() });
    v
}

fn pairs() -> Vec<Cfg> {
    // all pairs of run-time deviations (one representative value per axis, plus the hint values)
    let d = Cfg::default();
    let axes: Vec<Box<dyn Fn(&mut Cfg)>> = vec![
        Box::new(|c| c.offline = true),
        Box::new(|c| c.low_mem = Some(true)),
        Box::new(|c| c.low_mem = Some(false)),
        Box::new(|c| c.threads = 1),
        Box::new(|c| c.threads = 3),
        Box::new(|c| c.eps = 0.1),
        Box::new(|c| c.seed = 2),
        Box::new(|c| c.hint = Hint::Absent),
        Box::new(|c| c.hint = Hint::DoublePlus7),
        Box::new(|c| c.hint = Hint::K800),
        Box::new(|c| c.hint = Hint::Zero),
        Box::new(|c| c.vals = Vals::AllZero),
        Box::new(|c| c.vals = Vals::AllMax),
        Box::new(|c| c.check_dups = true),
    ];
    let mut v = vec![];
    for i in 0..axes.len() {
        for j in i + 1..axes.len() {
            let mut c = d.clone();
            axes[i](&mut c);
            axes[j](&mut c);
            v.push(c);
        }
    }
    v
}

fn funcs(r: &mut Runner, t: bool) {
    let d = Cfg::default();
    let nmax = if t { 6000 } else { 400 };
    // every n, default configuration
    for n in 0..=nmax {
        func_case!(r, "usize,BitFieldVec<usize>,[u64;2],FuseLge3Shards", n, &d, keys = usize, W = usize, D = BitFieldVec<usize>, S = [u64; 2], E = FuseLge3Shards);
    }
    // every n, every single run-time deviation
    let nd = if t { 1500 } else { 160 };
    let devs = deviations();
    for n in 0..=nd {
        for c in &devs {
            func_case!(r, "usize,BitFieldVec<usize>,[u64;2],FuseLge3Shards", n, c, keys = usize, W = usize, D = BitFieldVec<usize>, S = [u64; 2], E = FuseLge3Shards);
        }
    }
    // every value width of the word, three sizes (the width selects the cell layout and which accessors apply)
    for b in 1..=64u32 {
        for &n in &[1usize, 100, 1000] {
            let c = Cfg { vals: Vals::Wide(b), ..d.clone() };
            func_case!(r, "usize,BitFieldVec<usize>,[u64;2],FuseLge3Shards", n, &c, keys = usize, W = usize, D = BitFieldVec<usize>, S = [u64; 2], E = FuseLge3Shards);
            if b <= 16 {
                func_case!(r, "usize,BitFieldVec<u16>,[u64;2],FuseLge3Shards", n, &c, keys = usize, W = u16, D = BitFieldVec<u16>, S = [u64; 2], E = FuseLge3Shards);
            }
            if b <= 8 {
                func_case!(r, "usize,BitFieldVec<u8>,[u64;2],FuseLge3Shards", n, &c, keys = usize, W = u8, D = BitFieldVec<u8>, S = [u64; 2], E = FuseLge3Shards);
            }
        }
    }
    // pairs of run-time deviations at selected sizes
    let ps = pairs();
    for &n in &[0usize, 1, 2, 3, 10, 99, 100, 101, 1000] {
        if !t && n == 1000 {
            continue;
        }
        for c in &ps {
            func_case!(r, "usize,BitFieldVec<usize>,[u64;2],FuseLge3Shards", n, c, keys = usize, W = usize, D = BitFieldVec<usize>, S = [u64; 2], E = FuseLge3Shards);
        }
    }
    // type-level deviations, every n up to a bound, default run-time configuration + a few run-time ones
    let nt = if t { 600 } else { 130 };
    // (low_mem selects the peeler of the logics that do not use lazy Gaussian elimination: MWHC at every size,
    // the unsharded fuse logic above 100 000 keys, everything above 800 000)
    let few = [
        d.clone(),
        Cfg { offline: true, ..d.clone() },
        Cfg { hint: Hint::K800, ..d.clone() },
        Cfg { vals: Vals::AllMax, threads: 1, ..d.clone() },
        Cfg { vals: Vals::AllZero, hint: Hint::Absent, ..d.clone() },
        Cfg { low_mem: Some(true), ..d.clone() },
        Cfg { low_mem: Some(false), threads: 2, ..d.clone() },
    ];
    for n in 0..=nt {
        for (ci, c) in few.iter().enumerate() {
            if ci > 0 && n % 5 != 0 && n > 12 {
                continue;
            }
            func_case!(r, "u64,Box<[usize]>,[u64;2],FuseLge3Shards", n, c, keys = u64, W = usize, D = Box<[usize]>, S = [u64; 2], E = FuseLge3Shards);
            func_case!(r, "str,BitFieldVec<usize>,[u64;2],FuseLge3Shards", n, c, keys = str, W = usize, D = BitFieldVec<usize>, S = [u64; 2], E = FuseLge3Shards);
            func_case!(r, "String,Box<[u16]>,[u64;2],FuseLge3Shards", n, c, keys = string, W = u16, D = Box<[u16]>, S = [u64; 2], E = FuseLge3Shards);
            func_case!(r, "usize,Box<[u8]>,[u64;2],FuseLge3Shards", n, c, keys = usize, W = u8, D = Box<[u8]>, S = [u64; 2], E = FuseLge3Shards);
            func_case!(r, "usize,Box<[u32]>,[u64;2],FuseLge3Shards", n, c, keys = usize, W = u32, D = Box<[u32]>, S = [u64; 2], E = FuseLge3Shards);
            func_case!(r, "usize,Box<[u64]>,[u64;2],FuseLge3Shards", n, c, keys = usize, W = u64, D = Box<[u64]>, S = [u64; 2], E = FuseLge3Shards);
            func_case!(r, "usize,BitFieldVec<u8>,[u64;2],FuseLge3Shards", n, c, keys = usize, W = u8, D = BitFieldVec<u8>, S = [u64; 2], E = FuseLge3Shards);
            func_case!(r, "usize,BitFieldVec<u16>,[u64;2],FuseLge3Shards", n, c, keys = usize, W = u16, D = BitFieldVec<u16>, S = [u64; 2], E = FuseLge3Shards);
            func_case!(r, "usize,BitFieldVec<u64>,[u64;2],FuseLge3Shards", n, c, keys = usize, W = u64, D = BitFieldVec<u64>, S = [u64; 2], E = FuseLge3Shards);
            func_case!(r, "usize,BitFieldVec<usize>,[u64;1],FuseLge3NoShards", n, c, keys = usize, W = usize, D = BitFieldVec<usize>, S = [u64; 1], E = FuseLge3NoShards);
            func_case!(r, "usize,Box<[usize]>,[u64;1],FuseLge3NoShards", n, c, keys = usize, W = usize, D = Box<[usize]>, S = [u64; 1], E = FuseLge3NoShards);
            func_case!(r, "usize,BitFieldVec<usize>,[u64;2],FuseLge3NoShards", n, c, keys = usize, W = usize, D = BitFieldVec<usize>, S = [u64; 2], E = FuseLge3NoShards);
            func_case!(r, "usize,BitFieldVec<usize>,[u64;2],FuseLge3FullSigs", n, c, keys = usize, W = usize, D = BitFieldVec<usize>, S = [u64; 2], E = FuseLge3FullSigs);
            func_case!(r, "usize,Box<[usize]>,[u64;2],FuseLge3FullSigs", n, c, keys = usize, W = usize, D = Box<[usize]>, S = [u64; 2], E = FuseLge3FullSigs);
            func_case!(r, "usize,BitFieldVec<usize>,[u64;2],Mwhc3Shards", n, c, keys = usize, W = usize, D = BitFieldVec<usize>, S = [u64; 2], E = Mwhc3Shards);
            func_case!(r, "usize,Box<[usize]>,[u64;2],Mwhc3NoShards", n, c, keys = usize, W = usize, D = Box<[usize]>, S = [u64; 2], E = Mwhc3NoShards);
        }
    }
    // regime boundaries (multi-shard builds; these also supply par_solve traces)
    let mut big: Vec<usize> = vec![50_000, 99_999, 100_000, 100_001, 150_000];
    if t {
        big.extend([49_999, 50_001, 199_999, 200_001, 198_021, 300_000, 396_041, 399_999, 400_001, 799_999, 800_000, 800_001]);
    }
    for n in big {
        for c in [d.clone(), Cfg { threads: 1, ..d.clone() }, Cfg { threads: 2, hint: Hint::Absent, ..d.clone() }, Cfg { threads: 3, hint: Hint::Half, ..d.clone() }] {
            if !t && n != 150_000 && c.threads != 8 {
                continue;
            }
            func_case!(r, "usize,BitFieldVec<usize>,[u64;2],FuseLge3Shards", n, &c, keys = usize, W = usize, D = BitFieldVec<usize>, S = [u64; 2], E = FuseLge3Shards);
        }
        if t || n == 150_000 {
            // offline store with fewer / as many / more buckets than shards (the on-disk splitter and merger)
            for (lb, h) in [(Some(0), Hint::Absent), (Some(1), Hint::Absent), (Some(3), Hint::Absent), (None, Hint::Exact), (None, Hint::Half), (None, Hint::K800)] {
                let c = Cfg { offline: true, log2_buckets: lb, hint: h, ..d.clone() };
                func_case!(r, "usize,BitFieldVec<usize>,[u64;2],FuseLge3Shards", n, &c, keys = usize, W = usize, D = BitFieldVec<usize>, S = [u64; 2], E = FuseLge3Shards);
                if lb != Some(3) {
                    func_case!(r, "usize,Box<[usize]>,[u64;2],FuseLge3FullSigs", n, &c, keys = usize, W = usize, D = Box<[usize]>, S = [u64; 2], E = FuseLge3FullSigs);
                }
            }
            // sharded builds of the non-default logics (two shards at 150 000 keys)
            func_case!(r, "usize,Box<[usize]>,[u64;2],Mwhc3Shards", n, &d, keys = usize, W = usize, D = Box<[usize]>, S = [u64; 2], E = Mwhc3Shards);
            func_case!(r, "usize,Box<[usize]>,[u64;2],FuseLge3FullSigs", n, &d, keys = usize, W = usize, D = Box<[usize]>, S = [u64; 2], E = FuseLge3FullSigs);
            func_case!(r, "usize,Box<[usize]>,[u64;2],FuseLge3NoShards", n, &d, keys = usize, W = usize, D = Box<[usize]>, S = [u64; 2], E = FuseLge3NoShards);
            func_case!(r, "usize,BitFieldVec<usize>,[u64;1],FuseLge3NoShards", n, &d, keys = usize, W = usize, D = BitFieldVec<usize>, S = [u64; 1], E = FuseLge3NoShards);
            // both peelers of the non-LGE path
            let lm = Cfg { low_mem: Some(true), ..d.clone() };
            func_case!(r, "usize,Box<[usize]>,[u64;2],FuseLge3NoShards", n, &lm, keys = usize, W = usize, D = Box<[usize]>, S = [u64; 2], E = FuseLge3NoShards);
            func_case!(r, "usize,Box<[usize]>,[u64;2],Mwhc3Shards", n, &lm, keys = usize, W = usize, D = Box<[usize]>, S = [u64; 2], E = Mwhc3Shards);
            let hm = Cfg { low_mem: Some(false), ..d.clone() };
            func_case!(r, "usize,BitFieldVec<usize>,[u64;1],FuseLge3NoShards", n, &hm, keys = usize, W = usize, D = BitFieldVec<usize>, S = [u64; 1], E = FuseLge3NoShards);
        }
    }
}

/// Every key type the crate hashes (all primitive integers, strings and string references, slices of every
/// primitive integer) x both signature widths: n distinct keys that share as much as possible - slices that
/// differ only in their last element, integers that differ only in their low or only in their high bytes -
/// so that a signature computed from part of the key makes keys collide. Functions must map every key to its
/// value; filters must contain every key and must not contain 2000 probes that differ from members in the same way.
macro_rules! keytype_case {
    ($r:expr, $filter:expr, $name:expr, $T:ty, $S:ty, $mk:expr) => {{
        let r: &mut Runner = $r;
        let filter: bool = $filter;
        let n: usize = 1000;
        let p = if filter { "C08" } else { "C07" };
        let name: &str = $name;
        if r.ctx.case(|| format!("VBuilder::<key type> {} keys={name} sig={} n={n}", if filter { "filter" } else { "function" }, stringify!($S))) {
            r.ctx.nontrivial();
            let mk = $mk;
            let keys: Vec<$T> = (0..n).map(&mk).collect();
            let res = guard(|| -> Result<(usize, usize, usize), String> {
                if filter {
                    let f = VBuilder::<u8, Box<[u8]>, $S, FuseLge3NoShards>::default()
                        .expected_num_keys(n)
                        .try_build_filter(FromIntoIterator::from(keys.clone()), no_logging![])
                        .map_err(|e| format!("{e:#}"))?;
                    let missing = keys.iter().filter(|k| !f.contains(*k)).count();
                    let fpos = (n..n + 2000).filter(|&j| f.contains(mk(j))).count();
                    Ok((f.len(), missing, fpos))
                } else {
                    let f = VBuilder::<u8, Box<[u8]>, $S, FuseLge3NoShards>::default()
                        .expected_num_keys(n)
                        .try_build_func(FromIntoIterator::from(keys.clone()), FromIntoIterator::from((0..n).map(|i| (i % 251) as u8)), no_logging![])
                        .map_err(|e| format!("{e:#}"))?;
                    let wrong = keys.iter().enumerate().filter(|(i, k)| f.get(*k) != (i % 251) as u8).count();
                    Ok((f.len(), wrong, 0))
                }
            });
            r.after_build(&format!("key type {name}"));
            match res {
                Outcome::Panic(m) => r.ctx.violation(&format!("{p}|VBuilder::<key-type-{name}>|panic"), format!("sig={}: {m}", stringify!($S))),
                Outcome::Ret(Err(e)) => r.ctx.violation(&format!("{p}|VBuilder::<key-type-{name}>|error"), format!("sig={}: distinct keys, but the build returned {e}", stringify!($S))),
                Outcome::Ret(Ok((len, bad, fpos))) => {
                    if len != n || bad > 0 {
                        r.ctx.violation(&format!("{p}|VBuilder::<key-type-{name}>|wrong-values"), format!("sig={}: len() = {len}, {bad} of {n} keys wrong / not contained", stringify!($S)));
                    }
                    // 8-bit hashes, 2000 probes: 7.8 expected, 40 is beyond 10 standard deviations
                    if fpos > 40 {
                        r.ctx.violation(&format!("{p}|VBuilder::<key-type-{name}>|false-positive-rate"), format!("sig={}: {fpos} of 2000 non-members that differ from members only in their last part are contained", stringify!($S)));
                    }
                }
            }
        }
    }};
}

fn key_types(r: &mut Runner, filter: bool) {
    macro_rules! both {
        ($name:expr, $T:ty, $mk:expr) => {
            keytype_case!(r, filter, $name, $T, [u64; 2], $mk);
            keytype_case!(r, filter, $name, $T, [u64; 1], $mk);
        };
    }
    // integers: distinct in the low bytes only, and (wide types) in the high bytes only
    both!("u16", u16, |i: usize| i as u16);
    both!("i16", i16, |i: usize| i as i16 - 500);
    both!("u32", u32, |i: usize| i as u32);
    both!("u32-high-bytes", u32, |i: usize| (i as u32) << 20 | 7);
    both!("i32", i32, |i: usize| -(i as i32));
    both!("u64-high-bytes", u64, |i: usize| (i as u64) << 48 | 0xABCD);
    both!("i64", i64, |i: usize| i as i64 - 300);
    both!("u128", u128, |i: usize| i as u128);
    both!("u128-high-bytes", u128, |i: usize| (i as u128) << 100 | 99);
    both!("i128", i128, |i: usize| -(i as i128) << 64);
    both!("isize", isize, |i: usize| i as isize - 1);
    both!("usize-high-bytes", usize, |i: usize| i << 50 | 1);
    // strings by value and by reference
    both!("String", String, |i: usize| format!("a-rather-long-common-prefix-shared-by-all-the-keys-{i}"));
    both!("&str", &'static str, |i: usize| -> &'static str { Box::leak(format!("common-prefix-{i}").into_boxed_str()) });
    both!("&String", &'static String, |i: usize| -> &'static String { Box::leak(Box::new(format!("common-prefix-{i}"))) });
    // slices: three elements, only the last one differs
    macro_rules! sl {
        ($name:expr, $E:ty) => {
            both!($name, &'static [$E], |i: usize| -> &'static [$E] { Box::leak(vec![7 as $E, 7 as $E, i as $E].into_boxed_slice()) });
        };
    }
    sl!("&[u8]-len3", u16); // (u8 cannot hold 3000 distinct last elements: the u16 case stands in, and the one below uses u8 with 4 elements)
    both!("&[u8]", &'static [u8], |i: usize| -> &'static [u8] { Box::leak(vec![9u8, 9, (i >> 8) as u8, i as u8].into_boxed_slice()) });
    both!("&[i8]", &'static [i8], |i: usize| -> &'static [i8] { Box::leak(vec![9i8, 9, (i >> 7) as i8, (i & 127) as i8].into_boxed_slice()) });
    sl!("&[u16]", u16);
    sl!("&[i16]", i16);
    sl!("&[u32]", u32);
    sl!("&[i32]", i32);
    sl!("&[u64]", u64);
    sl!("&[i64]", i64);
    sl!("&[u128]", u128);
    sl!("&[i128]", i128);
    sl!("&[usize]", usize);
    sl!("&[isize]", isize);
}

/// Regimes of the default logic far above the linear-solving sizes: the expansion factor changes at 5, 10 and
/// 20 million keys, sharding resumes above 2 x 10 million keys, the default peeler changes with the number of
/// shards. One build per size (a 45-million-key build takes 5 s and 2 GB).
fn very_large(r: &mut Runner, t: bool) {
    let d = Cfg::default();
    let sizes: &[usize] = if t { &[5_000_000, 5_000_001, 10_000_000, 10_000_001, 20_000_000, 20_000_001, 45_000_000, 85_000_000] } else { &[10_000_001] };
    for &n in sizes {
        func_case!(r, "usize,Box<[u8]>,[u64;2],FuseLge3Shards", n, &d, keys = usize, W = u8, D = Box<[u8]>, S = [u64; 2], E = FuseLge3Shards);
        if t && n <= 20_000_001 {
            func_case!(r, "usize,BitFieldVec<usize>,[u64;2],FuseLge3FullSigs", n, &d, keys = usize, W = usize, D = BitFieldVec<usize>, S = [u64; 2], E = FuseLge3FullSigs);
            func_case!(r, "usize,Box<[u8]>,[u64;2],FuseLge3NoShards", n, &d, keys = usize, W = u8, D = Box<[u8]>, S = [u64; 2], E = FuseLge3NoShards);
        }
    }
}

fn filters(r: &mut Runner, t: bool) {
    let d = Cfg::default();
    let nmax = if t { 1500 } else { 200 };
    // every n, default 8-bit filter on the bit-field backend and on the boxed u8 backend
    for n in 0..=nmax {
        filter_case!(r, "BitFieldVec<usize>,[u64;2],FuseLge3Shards", n, &d, 8, false, W = usize, boxed = false, S = [u64; 2], E = FuseLge3Shards);
        filter_case!(r, "Box<[u8]>,[u64;2],FuseLge3Shards", n, &d, 8, false, W = u8, boxed = true, S = [u64; 2], E = FuseLge3Shards);
    }
    // every hash width
    let sizes: &[usize] = if t { &[0, 1, 2, 3, 10, 99, 100, 101, 1000, 5000] } else { &[0, 1, 3, 10, 100, 101, 1000] };
    for &n in sizes {
        for b in [1usize, 2, 3, 7, 8, 9, 15, 16, 31, 32, 33, 63, 64] {
            // false positives are counted for every width (for wide hashes the expected count is 0: band [0, 2])
            filter_case!(r, "BitFieldVec<usize>,[u64;2],FuseLge3Shards", n, &d, b, n == 1000 || n == 10, W = usize, boxed = false, S = [u64; 2], E = FuseLge3Shards);
        }
        for b in 1..=8usize {
            filter_case!(r, "BitFieldVec<u8>,[u64;2],FuseLge3Shards", n, &d, b, n == 1000 || n == 10, W = u8, boxed = false, S = [u64; 2], E = FuseLge3Shards);
        }
        for b in [15usize, 16] {
            filter_case!(r, "BitFieldVec<u16>,[u64;2],FuseLge3Shards", n, &d, b, n >= 10, W = u16, boxed = false, S = [u64; 2], E = FuseLge3Shards);
        }
        for b in [31usize, 32] {
            filter_case!(r, "BitFieldVec<u32>,[u64;2],FuseLge3Shards", n, &d, b, n >= 10, W = u32, boxed = false, S = [u64; 2], E = FuseLge3Shards);
        }
        for b in [1usize, 63, 64] {
            filter_case!(r, "BitFieldVec<u64>,[u64;2],FuseLge3Shards", n, &d, b, n >= 10, W = u64, boxed = false, S = [u64; 2], E = FuseLge3Shards);
        }
        filter_case!(r, "Box<[u8]>,[u64;2],FuseLge3Shards", n, &d, 8, n >= 10, W = u8, boxed = true, S = [u64; 2], E = FuseLge3Shards);
        filter_case!(r, "Box<[u16]>,[u64;2],FuseLge3Shards", n, &d, 16, n >= 10, W = u16, boxed = true, S = [u64; 2], E = FuseLge3Shards);
        filter_case!(r, "Box<[u32]>,[u64;2],FuseLge3Shards", n, &d, 32, n >= 10, W = u32, boxed = true, S = [u64; 2], E = FuseLge3Shards);
        filter_case!(r, "Box<[u64]>,[u64;2],FuseLge3Shards", n, &d, 64, n >= 10, W = u64, boxed = true, S = [u64; 2], E = FuseLge3Shards);
        // shard/edge logics
        filter_case!(r, "BitFieldVec<usize>,[u64;1],FuseLge3NoShards", n, &d, 9, n == 1000, W = usize, boxed = false, S = [u64; 1], E = FuseLge3NoShards);
        filter_case!(r, "BitFieldVec<usize>,[u64;2],FuseLge3FullSigs", n, &d, 9, n == 1000, W = usize, boxed = false, S = [u64; 2], E = FuseLge3FullSigs);
        filter_case!(r, "BitFieldVec<usize>,[u64;2],Mwhc3Shards", n, &d, 9, n == 1000, W = usize, boxed = false, S = [u64; 2], E = Mwhc3Shards);
        filter_case!(r, "Box<[u8]>,[u64;2],Mwhc3NoShards", n, &d, 8, n == 1000, W = u8, boxed = true, S = [u64; 2], E = Mwhc3NoShards);
        // run-time deviations
        for c in deviations() {
            if c.vals != Vals::Hash12 {
                continue;
            }
            filter_case!(r, "BitFieldVec<usize>,[u64;2],FuseLge3Shards", n, &c, 10, n == 1000, W = usize, boxed = false, S = [u64; 2], E = FuseLge3Shards);
        }
    }
    // offline store with fewer / as many / more buckets than shards (the on-disk splitter and merger), two shards
    for (lb, h) in [(Some(0), Hint::Absent), (Some(1), Hint::Absent), (Some(3), Hint::Absent), (None, Hint::Exact), (None, Hint::Half)] {
        let c = Cfg { offline: true, log2_buckets: lb, hint: h, ..d.clone() };
        filter_case!(r, "Box<[u8]>,[u64;2],FuseLge3Shards", 150_000, &c, 8, false, W = u8, boxed = true, S = [u64; 2], E = FuseLge3Shards);
        if lb != Some(3) {
            filter_case!(r, "BitFieldVec<usize>,[u64;2],FuseLge3FullSigs", 150_000, &c, 9, false, W = usize, boxed = false, S = [u64; 2], E = FuseLge3FullSigs);
        }
    }
    // large filters: false-positive counting at 100 000 keys and a multi-shard build
    let big: &[usize] = if t { &[100_000, 150_000, 400_001, 10_000_001, 45_000_000] } else { &[100_000] };
    for &n in big {
        for b in [1usize, 4, 8, 12] {
            filter_case!(r, "BitFieldVec<usize>,[u64;2],FuseLge3Shards", n, &d, b, true, W = usize, boxed = false, S = [u64; 2], E = FuseLge3Shards);
        }
        filter_case!(r, "Box<[u8]>,[u64;2],FuseLge3Shards", n, &d, 8, true, W = u8, boxed = true, S = [u64; 2], E = FuseLge3Shards);
    }
}

fn main() {
    let mut ctx = Ctx::from_args();
    start_watchdog(120);
    let prop = ctx.opt("prop").unwrap_or("C07").to_string();
    let traces = ctx.opt("traces").is_some();
    sux::verif_hooks::set_event_hook(Some(on_event));
    if let Some(spec) = ctx.opt("hangprobe") {
        let spec = spec.to_string();
        hang_probe_child(&spec);
        return;
    }
    let t = ctx.thorough();
    let mut r = Runner { ctx: &mut ctx, prop: prop.clone(), traces };
    if r.ctx.opt("family") == Some("perturbed") {
        // (used by C17, relabelled: the failing-attempt protocol under perturbed schedules)
        perturbed_schedules(&mut r, t);
    } else if prop == "C07" {
        hang_probes(&mut r);
        funcs(&mut r, t);
        seed_sweep(&mut r, false, t);
        crafted_failures(&mut r, false, t);
        very_large(&mut r, t);
        perturbed_schedules(&mut r, t);
        key_types(&mut r, false);
    } else {
        crafted_failures(&mut r, true, t);
        key_types(&mut r, true);
        filters(&mut r, t);
        seed_sweep(&mut r, true, t);
    }
    ctx.finish();
}

//! C20 — rewinding an input lender replays exactly the same sequence of items:
//! all small texts x lender kinds x Take(n) x all consume/rewind histories.
use lender::*;
use std::fmt::Debug;
use std::io::{BufReader, Cursor, Write};
use sux::utils::{FromIntoIterator, GzipLineLender, LineLender, RewindableIoLender, ZstdLineLender};
use vh::rt::*;

/// Runs a history of (consume c items, rewind) rounds, then checks that a full pass yields `expected`.
fn drive<T, L>(mut l: L, expected: &[T::Owned], history: &[usize]) -> Result<(), (String, String)>
where
    T: ?Sized + ToOwned,
    T::Owned: PartialEq + Debug,
    L: RewindableIoLender<T>,
{
    for (round, &c) in history.iter().enumerate() {
        for j in 0..c {
            match l.next() {
                None => break,
                Some(Err(e)) => return Err(("error-item".into(), format!("round {round}: item {j} is Err({e})"))),
                Some(Ok(x)) => {
                    if j >= expected.len() || x.to_owned() != expected[j] {
                        return Err(("wrong-item".into(), format!("round {round}: item {j} = {:?}, expected {:?}", x.to_owned(), expected.get(j))));
                    }
                }
            }
        }
        l = match l.rewind() {
            Ok(l) => l,
            Err(e) => return Err(("rewind-error".into(), format!("round {round}: rewind() failed: {e}"))),
        };
    }
    let mut got: Vec<T::Owned> = vec![];
    loop {
        match l.next() {
            None => break,
            Some(Err(e)) => return Err(("error-item-after-rewind".into(), format!("after {} rewinds (consumed {history:?}): item {} is Err({e})", history.len(), got.len()))),
            Some(Ok(x)) => got.push(x.to_owned()),
        }
        if got.len() > expected.len() + 5 {
            return Err(("too-many-items".into(), format!("more than {} items", expected.len() + 5)));
        }
    }
    if got != expected {
        // a strict prefix of the reference = items lost; anything else = wrong items
        let class = if got.len() < expected.len() && got[..] == expected[..got.len()] { "items-lost-after-rewind" } else { "items-after-rewind!=first-pass" };
        return Err((
            class.into(),
            format!("after {} rewinds (consumed {history:?}): {} items {:?}.., expected {} items {:?}..", history.len(), got.len(), &got[..got.len().min(3)], expected.len(), &expected[..expected.len().min(3)]),
        ));
    }
    Ok(())
}

fn histories(len: usize, rounds: usize) -> Vec<Vec<usize>> {
    let mut cs: Vec<usize> = vec![0, 1, len.saturating_sub(1), len, len + 1];
    cs.sort();
    cs.dedup();
    let mut out: Vec<Vec<usize>> = vec![vec![]];
    let mut frontier: Vec<Vec<usize>> = vec![vec![]];
    for _ in 0..rounds {
        let mut next = vec![];
        for h in &frontier {
            for &c in &cs {
                let mut h2 = h.clone();
                h2.push(c);
                next.push(h2);
            }
        }
        out.extend(next.iter().cloned());
        frontier = next;
    }
    out
}

fn gz(data: &[u8]) -> Vec<u8> {
    let mut e = flate2::write::GzEncoder::new(Vec::new(), flate2::Compression::default());
    e.write_all(data).unwrap();
    e.finish().unwrap()
}

fn report(ctx: &mut Ctx, kind: &str, take: Option<usize>, r: Outcome<Result<(), (String, String)>>) {
    let site = match take {
        Some(_) => format!("Take<{kind}>::rewind"),
        None => format!("{kind}::rewind"),
    };
    match r {
        Outcome::Ret(Ok(())) => {}
        Outcome::Ret(Err((class, what))) => ctx.violation(&format!("C20|{site}|{class}"), what),
        Outcome::Panic(m) => ctx.violation(&format!("C20|{site}|panic"), m),
    }
}

fn text_cases(ctx: &mut Ctx, lines: &[String], crlf: bool, final_term: bool, rounds: usize, tmp: &std::path::Path, big: bool) {
    let term = if crlf { "\r\n" } else { "\n" };
    let mut text = String::new();
    for (i, l) in lines.iter().enumerate() {
        text.push_str(l);
        if i + 1 < lines.len() || final_term {
            text.push_str(term);
        }
    }
    // reference splitter on the text itself: split on LF, remove one CR immediately before the LF;
    // a final unterminated piece, if not empty, is a line and is kept as is (a lone CR is not a terminator)
    let mut expected: Vec<String> = vec![];
    let mut rest = text.as_str();
    while !rest.is_empty() {
        match rest.find('\n') {
            Some(p) => {
                let l = &rest[..p];
                expected.push(l.strip_suffix('\r').unwrap_or(l).to_string());
                rest = &rest[p + 1..];
            }
            None => {
                expected.push(rest.to_string());
                rest = "";
            }
        }
    }
    let n = expected.len();
    let bytes = text.clone().into_bytes();
    let show = |l: &String| if l.len() > 10 { format!("<{} bytes>", l.len()) } else { format!("{l:?}") };
    let tdesc = format!("lines=[{}] crlf={crlf} final_terminator={final_term}", lines.iter().map(show).collect::<Vec<_>>().join(","));
    let zst = zstd::encode_all(&bytes[..], 3).unwrap();
    let gzd = gz(&bytes);
    let path = tmp.join("input.txt");
    let takes: Vec<Option<usize>> = {
        let mut t: Vec<usize> = vec![0, 1, n.saturating_sub(1), n, n + 1];
        t.sort();
        t.dedup();
        std::iter::once(None).chain(t.into_iter().map(Some)).collect()
    };
    let kinds: &[&str] = if big { &["LineLender<Cursor>", "ZstdLineLender", "GzipLineLender"] } else { &["LineLender<Cursor>", "LineLender<File>", "ZstdLineLender", "GzipLineLender", "ZstdLineLender<File>", "GzipLineLender<File>"] };
    for &kind in kinds {
        for &take in &takes {
            if big && take.is_some_and(|t| t != n && t != 1) {
                continue;
            }
            if !ctx.case(|| format!("{kind} take={take:?} {tdesc} (all histories of <= {rounds} consume/rewind rounds)")) {
                continue;
            }
            if n >= 2 {
                ctx.nontrivial();
            }
            if kind == "LineLender<File>" {
                std::fs::write(&path, &bytes).unwrap();
            } else if kind == "ZstdLineLender<File>" {
                std::fs::write(&path, &zst).unwrap();
            } else if kind == "GzipLineLender<File>" {
                std::fs::write(&path, &gzd).unwrap();
            }
            let mut hi = 0usize;
            let exp: Vec<String> = match take {
                Some(t) => expected[..t.min(n)].to_vec(),
                None => expected.clone(),
            };
            for h in histories(exp.len(), rounds) {
                ctx.sub_evaluations += 1;
                hi += 1;
                let by_file = hi % 2 == 0; // file-backed lenders: opened by path and from an open File in turn
                let r = guard(|| -> Result<(), (String, String)> {
                    macro_rules! go {
                        ($l:expr) => {{
                            let l = $l;
                            match take {
                                Some(t) => drive::<str, _>(l.take(t), &exp, &h),
                                None => drive::<str, _>(l, &exp, &h),
                            }
                        }};
                    }
                    match kind {
                        "LineLender<Cursor>" => go!(LineLender::new(BufReader::new(Cursor::new(bytes.clone())))),
                        "LineLender<File>" if by_file => go!(LineLender::from_file(std::fs::File::open(&path).unwrap())),
                        "LineLender<File>" => go!(LineLender::from_path(&path).unwrap()),
                        "ZstdLineLender<File>" if by_file => go!(ZstdLineLender::from_file(std::fs::File::open(&path).unwrap()).unwrap()),
                        "ZstdLineLender<File>" => go!(ZstdLineLender::from_path(&path).unwrap()),
                        "GzipLineLender<File>" if by_file => go!(GzipLineLender::from_file(std::fs::File::open(&path).unwrap()).unwrap()),
                        "GzipLineLender<File>" => go!(GzipLineLender::from_path(&path).unwrap()),
                        "ZstdLineLender" => go!(ZstdLineLender::new(Cursor::new(zst.clone())).unwrap()),
                        _ => go!(GzipLineLender::new(Cursor::new(gzd.clone())).unwrap()),
                    }
                });
                report(ctx, kind.split('<').next().unwrap(), take, r);
            }
        }
    }
}

/// Compressed inputs made of several concatenated frames (zstd) / members (gzip): whatever the first
/// pass of a fresh lender yields is the reference; every pass after a rewind must yield the same.
fn multi_frame_cases(ctx: &mut Ctx, rounds: usize) {
    let pieces: Vec<&str> = vec!["", "a\n", "b\nc\n", "d", "e\r\n", "\n"];
    let mut streams: Vec<Vec<&str>> = vec![];
    for a in &pieces {
        for b in &pieces {
            streams.push(vec![a, b]);
            for c in &pieces[..4] {
                streams.push(vec![a, b, c]);
            }
        }
    }
    let big1: String = (0..3000).map(|i| format!("{:016x}{:016x}first{i}\n", mix(i), mix(i + 5))).collect();
    let big2: String = (0..3000).map(|i| format!("{:016x}{:016x}second{i}\n", mix(i + 70_000), mix(i + 9))).collect();
    streams.push(vec![&big1, &big2]);
    streams.push(vec![&big1, "", &big2, "tail"]);
    for frames in streams {
        for kind in ["ZstdLineLender", "GzipLineLender"] {
            let big = frames.iter().any(|f| f.len() > 1000);
            if !ctx.case(|| format!("{kind} multi-frame stream frames={:?} (all histories of <= {rounds} consume/rewind rounds)", frames.iter().map(|f| if f.len() > 20 { format!("<{} bytes>", f.len()) } else { format!("{f:?}") }).collect::<Vec<_>>())) {
                continue;
            }
            ctx.nontrivial();
            let mut stream: Vec<u8> = vec![];
            for f in &frames {
                if kind == "ZstdLineLender" {
                    stream.extend(zstd::encode_all(f.as_bytes(), 3).unwrap());
                } else {
                    stream.extend(gz(f.as_bytes()));
                }
            }
            macro_rules! body {
                ($mk:expr) => {{
                    // first pass of a fresh lender
                    let first = guard(|| -> Result<Vec<String>, String> {
                        let mut got = vec![];
                        let mut l = $mk;
                        while let Some(x) = l.next() {
                            got.push(x.map_err(|e| e.to_string())?.to_owned());
                        }
                        Ok(got)
                    });
                    match first {
                        Outcome::Ret(Err(_)) => ctx.count("multi_frame_first_pass_errors"),
                        Outcome::Panic(m) => ctx.violation(&format!("C20|{kind}::next|panic"), format!("{} frames: {m}", frames.len())),
                        Outcome::Ret(Ok(exp)) => {
                            ctx.add("multi_frame_first_pass_lines", exp.len() as u64);
                            for h in histories(exp.len(), if big { 1 } else { rounds }) {
                                if h.is_empty() {
                                    continue;
                                }
                                ctx.sub_evaluations += 1;
                                let r = guard(|| drive::<str, _>($mk, &exp, &h));
                                report(ctx, kind, None, r);
                            }
                        }
                    }
                }};
            }
            if kind == "ZstdLineLender" {
                body!(ZstdLineLender::new(Cursor::new(stream.clone())).unwrap());
            } else {
                body!(GzipLineLender::new(Cursor::new(stream.clone())).unwrap());
            }
        }
    }
}

/// Inputs containing lines that are not valid UTF-8: such a line is lent as an error item (the reader has
/// consumed it), and the passes after a rewind must lend the same mixture of items and errors as the first pass
/// of a fresh lender (which is the reference here).
fn invalid_utf8_cases(ctx: &mut Ctx, rounds: usize) {
    let inputs: Vec<(&str, Vec<u8>)> = vec![
        ("bad second line", b"first\nse\xFF\xFEcond line\nthird\nfourth\n".to_vec()),
        ("bad first line", b"\xC3\x28\nsecond\n".to_vec()),
        ("bad last line, unterminated", b"a\nb\n\xE2\x82".to_vec()),
        ("two bad lines", b"ok\n\xFF\n\xFF\xFF\r\nok2\n".to_vec()),
    ];
    for (name, bytes) in inputs {
        for kind in ["LineLender", "ZstdLineLender", "GzipLineLender"] {
            if !ctx.case(|| format!("{kind} input with invalid UTF-8 ({name}) (all histories of <= {rounds} consume/rewind rounds)")) {
                continue;
            }
            ctx.nontrivial();
            let zst = zstd::encode_all(&bytes[..], 3).unwrap();
            let gzd = gz(&bytes);
            macro_rules! body {
                ($mk:expr) => {{
                    let pass = |l: &mut dyn FnMut() -> Option<Result<String, String>>| -> Vec<Result<String, String>> {
                        let mut v = vec![];
                        while let Some(x) = l() {
                            v.push(x);
                            if v.len() > 50 {
                                break;
                            }
                        }
                        v
                    };
                    let reference = guard(|| {
                        let mut l = $mk;
                        pass(&mut || l.next().map(|r| r.map(|s| s.to_owned()).map_err(|e| format!("{:?}", e.kind()))))
                    });
                    match reference {
                        Outcome::Panic(m) => ctx.violation(&format!("C20|{kind}::next|panic"), format!("{name}: {m}")),
                        Outcome::Ret(exp) => {
                            for h in histories(exp.len(), rounds) {
                                if h.is_empty() {
                                    continue;
                                }
                                ctx.sub_evaluations += 1;
                                let r = guard(|| -> Result<(), String> {
                                    let mut l = $mk;
                                    for &c in &h {
                                        for _ in 0..c {
                                            if l.next().is_none() {
                                                break;
                                            }
                                        }
                                        l = l.rewind().map_err(|e| format!("rewind failed: {e}"))?;
                                    }
                                    let got = pass(&mut || l.next().map(|r| r.map(|s| s.to_owned()).map_err(|e| format!("{:?}", e.kind()))));
                                    if got != exp {
                                        return Err(format!("after consuming {h:?} and rewinding: {got:?}, first pass of a fresh lender: {exp:?}"));
                                    }
                                    Ok(())
                                });
                                match r {
                                    Outcome::Ret(Ok(())) => {}
                                    Outcome::Ret(Err(e)) => ctx.violation(&format!("C20|{kind}::rewind|items-after-rewind!=first-pass"), format!("{name}: {e}")),
                                    Outcome::Panic(m) => ctx.violation(&format!("C20|{kind}::rewind|panic"), format!("{name}: {m}")),
                                }
                            }
                        }
                    }
                }};
            }
            match kind {
                "LineLender" => body!(LineLender::new(BufReader::with_capacity(8, Cursor::new(bytes.clone())))),
                "ZstdLineLender" => body!(ZstdLineLender::new(Cursor::new(zst.clone())).unwrap()),
                _ => body!(GzipLineLender::new(Cursor::new(gzd.clone())).unwrap()),
            }
        }
    }
}

fn iter_cases(ctx: &mut Ctx, rounds: usize) {
    for n in 0..=4usize {
        let mut t: Vec<usize> = vec![0, 1, n.saturating_sub(1), n, n + 1];
        t.sort();
        t.dedup();
        for take in std::iter::once(None).chain(t.into_iter().map(Some)) {
            if !ctx.case(|| format!("FromIntoIterator take={take:?} n={n} (range and Vec<String>; all histories of <= {rounds} rounds)")) {
                continue;
            }
            if n >= 2 {
                ctx.nontrivial();
            }
            let full: Vec<usize> = (10..10 + n).collect();
            let fulls: Vec<String> = full.iter().map(|x| format!("s{x}")).collect();
            let m = take.map_or(n, |t| t.min(n));
            for h in histories(m, rounds) {
                ctx.sub_evaluations += 1;
                let r = guard(|| {
                    let l = FromIntoIterator::from(10..10 + n);
                    match take {
                        Some(t) => drive::<usize, _>(l.take(t), &full[..m], &h),
                        None => drive::<usize, _>(l, &full[..m], &h),
                    }
                });
                report(ctx, "FromIntoIterator", take, r);
                let r = guard(|| {
                    let l = FromIntoIterator::from(fulls.clone());
                    match take {
                        Some(t) => drive::<String, _>(l.take(t), &fulls[..m], &h),
                        None => drive::<String, _>(l, &fulls[..m], &h),
                    }
                });
                report(ctx, "FromIntoIterator", take, r);
            }
        }
    }
}

fn main() {
    let mut ctx = Ctx::from_args();
    start_watchdog(300);
    let t = ctx.thorough();
    let tmp = tempfile::tempdir().unwrap();
    let rounds = 3;
    let long = "x".repeat(9000);
    // line contents, including ones that end with (or consist of) a CR, which is not a terminator by itself
    let alphabet: Vec<String> = vec!["".into(), "a".into(), "bc".into(), long, "d\r".into(), "\r".into()];
    let maxl = if t { 4 } else { 3 };
    for len in 0..=maxl {
        for mut code in 0..alphabet.len().pow(len as u32) {
            let mut lines = vec![];
            for _ in 0..len {
                lines.push(alphabet[code % alphabet.len()].clone());
                code /= alphabet.len();
            }
            for crlf in [false, true] {
                for ft in [true, false] {
                    if len == 0 && !ft {
                        continue;
                    }
                    text_cases(&mut ctx, &lines, crlf, ft, rounds, tmp.path(), false);
                }
            }
        }
    }
    // one multi-block compressed stream (~300 KiB of incompressible-ish lines)
    let big: Vec<String> = (0..4000).map(|i| format!("{:016x}{:016x}{:016x}{:016x}line{i}", mix(i), mix(i + 9999), mix(i * 3), mix(i * 7))).collect();
    text_cases(&mut ctx, &big, false, true, 2, tmp.path(), true);
    if t {
        text_cases(&mut ctx, &big, true, false, 2, tmp.path(), true);
    }
    // very long lines: lengths around the powers of two where buffers and caps usually sit (8 KiB is the
    // BufReader capacity), in ASCII and in two-byte characters (a cut at an odd offset would split one)
    for len in [8191usize, 8192, 8193, 65_534, 65_535, 65_536, 65_537, 70_000, 131_073, (1 << 20) + 3] {
        if !t && len > 140_000 {
            continue;
        }
        for wide in [false, true] {
            let line: String = if wide { "é".repeat(len / 2) + if len % 2 == 1 { "z" } else { "" } } else { "x".repeat(len) };
            let lines = vec!["ab".to_string(), line, "c".to_string()];
            for crlf in [false, true] {
                text_cases(&mut ctx, &lines, crlf, !crlf, 1, tmp.path(), true);
            }
        }
    }
    multi_frame_cases(&mut ctx, rounds);
    invalid_utf8_cases(&mut ctx, 2);
    iter_cases(&mut ctx, rounds);
    ctx.finish();
}

//! C01 / C02 — rank and select structures against linear-scan reference
//! answers, over an exhaustively enumerated space of shaped bit vectors x tail
//! states x structure stacks x parameters.
//!
//! `--opt prop=C01` checks the ranking side (rank, rank_zero, num_ones,
//! count_ones, len, indexing) of every stack; `--opt prop=C02` checks the
//! selection side (select, select_zero, cross-checks).
use std::ops::Index;
use sux::prelude::*;
use vh::rt::*;

struct Model {
    bits: Vec<bool>,
    prefix: Vec<usize>, // prefix[p] = ones among first p bits
    ones: Vec<usize>,
    zeros: Vec<usize>,
}

impl Model {
    fn new(bits: Vec<bool>) -> Self {
        let mut prefix = Vec::with_capacity(bits.len() + 1);
        let (mut ones, mut zeros) = (vec![], vec![]);
        let mut c = 0;
        prefix.push(0);
        for (i, &b) in bits.iter().enumerate() {
            if b {
                c += 1;
                ones.push(i);
            } else {
                zeros.push(i);
            }
            prefix.push(c);
        }
        Model { bits, prefix, ones, zeros }
    }
    fn len(&self) -> usize {
        self.bits.len()
    }
    fn rank(&self, p: usize) -> usize {
        self.prefix[p.min(self.len())]
    }
}

#[derive(Clone, Copy, Debug, PartialEq)]
enum Tail {
    Fresh,
    Popped,
    Truncated,
    SpareZeroWords,
    SpareDirtyWords,
    /// the contents were produced by whole-vector writers (fill, serial and parallel flip), which must
    /// leave the unused bits of the last word clear like every other operation
    WholeVectorWriters,
    /// clean last word, two extra backing words full of garbage (Rank9 documents that the content of an
    /// extra word is irrelevant; every structure bounds its scans by the length, not by the backing slice)
    SpareGarbageWords,
}

/// Builds the real bit vector holding `m.bits` with the given tail state.
fn build(m: &Model, tail: Tail) -> BitVec {
    match tail {
        Tail::Fresh => m.bits.iter().copied().collect(),
        Tail::Popped => {
            let mut b: BitVec = m.bits.iter().copied().collect();
            b.push(true);
            b.pop();
            b
        }
        Tail::Truncated => {
            let mut b: BitVec = m.bits.iter().copied().collect();
            b.resize(m.len() + 70, true);
            b.resize(m.len(), false);
            b
        }
        Tail::SpareZeroWords => {
            let b: BitVec = m.bits.iter().copied().collect();
            let (mut w, l) = b.into_raw_parts();
            w.push(0);
            w.push(0);
            unsafe { BitVec::from_raw_parts(w, l) }
        }
        Tail::WholeVectorWriters => {
            // complement of the wanted contents, then par_flip; then fill(true) + flip + the ones again
            let mut b: BitVec = m.bits.iter().map(|&x| !x).collect();
            b.par_flip();
            let mut c = b.clone();
            c.fill(true);
            c.flip();
            for (i, &x) in m.bits.iter().enumerate() {
                if x {
                    c.set(i, true);
                }
            }
            assert!(b == c);
            if m.len() % 2 == 0 {
                b
            } else {
                c
            }
        }
        Tail::SpareGarbageWords => {
            let b: BitVec = m.bits.iter().copied().collect();
            let (mut w, l) = b.into_raw_parts();
            w.push(usize::MAX);
            w.push(0x5555_5555_5555_5555);
            unsafe { BitVec::from_raw_parts(w, l) }
        }
        Tail::SpareDirtyWords => {
            let b: BitVec = m.bits.iter().copied().collect();
            let (mut w, l) = b.into_raw_parts();
            if l % 64 != 0 {
                let last = w.len() - 1;
                w[last] |= usize::MAX << (l % 64);
            }
            w.push(usize::MAX);
            unsafe { BitVec::from_raw_parts(w, l) }
        }
    }
}

fn positions(len: usize) -> Vec<usize> {
    if len <= 2200 {
        return (0..=len + 2).chain([usize::MAX]).collect();
    }
    let mut v = vec![0, 1, len - 1, len, len + 1, len + 64, 1 << 32, usize::MAX - 1, usize::MAX];
    for blk in [64usize, 256, 512, 1024, 2048, 8192] {
        let mut p = blk;
        while p <= len + blk {
            v.extend([p - 1, p, p + 1]);
            p += blk;
        }
    }
    let mut p = 7;
    while p < len {
        v.push(p);
        p += 97;
    }
    v.sort();
    v.dedup();
    v
}

fn ranks_to_query(count: usize) -> Vec<usize> {
    if count <= 2200 {
        return (0..=count + 1).chain([usize::MAX]).collect();
    }
    let mut v = vec![0, 1, count - 1, count, count + 1, usize::MAX];
    for q in [16usize, 64, 512, 1024, 4096, 8192] {
        let mut r = q;
        while r <= count + q {
            v.extend([r - 1, r, r + 1]);
            r += q;
        }
    }
    let mut r = 5;
    while r < count {
        v.push(r);
        r += 89;
    }
    v.sort();
    v.dedup();
    v
}

fn chk_rank<S: Rank + RankZero>(ctx: &mut Ctx, name: &str, s: &S, m: &Model, pos: &[usize]) {
    if s.len() != m.len() {
        ctx.violation(&format!("C01|{name}|len"), format!("len() = {} expected {}", s.len(), m.len()));
        return;
    }
    if s.num_ones() != m.ones.len() || s.num_zeros() != m.zeros.len() {
        ctx.violation(&format!("C01|{name}|num_ones"), format!("num_ones() = {} num_zeros() = {} expected {} / {}", s.num_ones(), s.num_zeros(), m.ones.len(), m.zeros.len()));
    }
    for &p in pos {
        let e = m.rank(p);
        let g = s.rank(p);
        if g != e {
            ctx.violation(&format!("C01|{name}|rank"), format!("rank({p}) = {g} expected {e} (len {})", m.len()));
            break;
        }
        let gz = s.rank_zero(p);
        // rank_zero(p) = p - rank(p) for every p (the vector is virtually zero-extended, as the trait documents)
        let ez = p - e;
        if gz != ez {
            ctx.violation(&format!("C01|{name}|rank_zero"), format!("rank_zero({p}) = {gz} expected {ez}"));
            break;
        }
    }
}

fn chk_bits<S: BitCount + Index<usize, Output = bool>>(ctx: &mut Ctx, name: &str, s: &S, m: &Model) {
    if s.count_ones() != m.ones.len() || s.count_zeros() != m.zeros.len() {
        ctx.violation(&format!("C01|{name}|count_ones"), format!("count_ones() = {} expected {}", s.count_ones(), m.ones.len()));
    }
    let step = if m.len() > 2200 { 61 } else { 1 };
    let mut i = 0;
    while i < m.len() {
        if s[i] != m.bits[i] {
            ctx.violation(&format!("C01|{name}|index"), format!("[{i}] = {} expected {}", s[i], m.bits[i]));
            break;
        }
        i += step;
    }
}

fn chk_sel<S: Select>(ctx: &mut Ctx, name: &str, s: &S, m: &Model) {
    for r in ranks_to_query(m.ones.len()) {
        let e = <[usize]>::get(&m.ones, r).copied();
        let g = s.select(r);
        if g != e {
            ctx.violation(&format!("C02|{name}|select"), format!("select({r}) = {g:?} expected {e:?} (len {}, ones {})", m.len(), m.ones.len()));
            break;
        }
    }
}

fn chk_selz<S: SelectZero>(ctx: &mut Ctx, name: &str, s: &S, m: &Model) {
    for r in ranks_to_query(m.zeros.len()) {
        let e = <[usize]>::get(&m.zeros, r).copied();
        let g = s.select_zero(r);
        if g != e {
            ctx.violation(&format!("C02|{name}|select_zero"), format!("select_zero({r}) = {g:?} expected {e:?} (len {}, zeros {})", m.len(), m.zeros.len()));
            break;
        }
    }
}

fn chk_rank_sel_cross<S: Select + Rank>(ctx: &mut Ctx, name: &str, s: &S, m: &Model) {
    for r in ranks_to_query(m.ones.len()) {
        if let Some(p) = s.select(r) {
            if p < m.len() && s.rank(p) != r {
                ctx.violation(&format!("C02|{name}|rank(select)"), format!("rank(select({r})) = {} (select = {p})", s.rank(p)));
                break;
            }
        }
    }
}

/// What a stack offers; used to pick the checks.
#[derive(Clone, Copy)]
struct Caps {
    rank: bool,
    sel: bool,
    selz: bool,
}

struct Run<'a> {
    ctx: &'a mut Ctx,
    prop: String,
    m: &'a Model,
    pos: &'a [usize],
    vdesc: &'a str,
    /// run only the stacks made of a rank structure alone
    rank_only: bool,
}

macro_rules! stack {
    // $caps: r = rank, s = select, z = select_zero, b = bits (count/index)
    ($run:expr, $name:expr, $build:expr; $($cap:ident)*) => {{
        let full_name: &str = $name;
        // finding keys name the stack without its parameters
        let name: &str = full_name.split(' ').next().unwrap();
        let want_rank = $run.prop == "C01";
        #[allow(unused_mut)]
        let mut caps = Caps { rank: false, sel: false, selz: false };
        $( stack!(@cap caps $cap); )*
        let relevant = (if want_rank { caps.rank } else { caps.sel || caps.selz }) && !($run.rank_only && (caps.sel || caps.selz));
        if relevant {
            let vdesc = $run.vdesc;
            if $run.ctx.case(|| format!("{full_name} vector={vdesc}")) {
                let key_panic = format!("{}|{name}::new|panic", $run.prop);
                let built = guard(|| $build);
                match built {
                    Outcome::Panic(msg) => $run.ctx.violation(&key_panic, format!("construction panicked: {msg}")),
                    Outcome::Ret(s) => {
                        let r = guard(|| {
                            $( stack!(@chk $run, name, s, want_rank, $cap); )*
                        });
                        if let Outcome::Panic(msg) = r {
                            let k = format!("{}|{name}|query-panic", $run.prop);
                            $run.ctx.violation(&k, format!("query panicked: {msg}"));
                        }
                    }
                }
                if !$run.m.ones.is_empty() && !$run.m.zeros.is_empty() {
                    $run.ctx.nontrivial();
                }
            }
        }
    }};
    (@cap $c:ident r) => { $c.rank = true; };
    (@cap $c:ident s) => { $c.sel = true; };
    (@cap $c:ident z) => { $c.selz = true; };
    (@cap $c:ident b) => {};
    (@cap $c:ident x) => {};
    (@chk $run:expr, $name:expr, $s:expr, $wr:expr, r) => { if $wr { chk_rank($run.ctx, $name, &$s, $run.m, $run.pos); } };
    (@chk $run:expr, $name:expr, $s:expr, $wr:expr, b) => { if $wr { chk_bits($run.ctx, $name, &$s, $run.m); } };
    (@chk $run:expr, $name:expr, $s:expr, $wr:expr, s) => { if !$wr { chk_sel($run.ctx, $name, &$s, $run.m); } };
    (@chk $run:expr, $name:expr, $s:expr, $wr:expr, z) => { if !$wr { chk_selz($run.ctx, $name, &$s, $run.m); } };
    (@chk $run:expr, $name:expr, $s:expr, $wr:expr, x) => { if !$wr { chk_rank_sel_cross($run.ctx, $name, &$s, $run.m); } };
}

fn all_stacks(run: &mut Run, bv: &BitVec, thorough: bool) {
    let b = || bv.clone();
    // ---- rank structures alone
    stack!(run, "Rank9", Rank9::new(b()); r b);
    stack!(run, "RankSmall<2,9>", rank_small![0; b()]; r b);
    stack!(run, "RankSmall<1,9>", rank_small![1; b()]; r b);
    stack!(run, "RankSmall<1,10>", rank_small![2; b()]; r b);
    stack!(run, "RankSmall<1,11>", rank_small![3; b()]; r b);
    stack!(run, "RankSmall<3,13>", rank_small![4; b()]; r b);
    // ---- Rank9 underneath selection wrappers
    stack!(run, "Select9(Rank9)", Select9::new(Rank9::new(b())); r b s x);
    stack!(run, "SelectZeroAdapt(Select9(Rank9))", SelectZeroAdapt::new(Select9::new(Rank9::new(b())), 3); r b s z);
    stack!(run, "SelectAdapt(Rank9)", SelectAdapt::new(Rank9::new(b()), 3); r b s x);
    stack!(run, "SelectZeroAdapt(SelectAdapt(Rank9))", SelectZeroAdapt::new(SelectAdapt::new(Rank9::new(b()), 3), 3); r b s z);
    stack!(run, "SelectAdapt(SelectZeroAdapt(Rank9))", SelectAdapt::new(SelectZeroAdapt::new(Rank9::new(b()), 3), 3); r b s z);
    stack!(run, "SelectAdaptConst(Rank9)", SelectAdaptConst::<_, _>::new(Rank9::new(b())); r b s);
    stack!(run, "SelectZeroAdaptConst(SelectAdaptConst(Rank9))", SelectZeroAdaptConst::<_, _>::new(SelectAdaptConst::<_, _>::new(Rank9::new(b()))); r b s z);
    stack!(run, "SelectAdaptConst<2,1>(SelectZeroAdaptConst<2,1>(Rank9))", SelectAdaptConst::<_, _, 2, 1>::new(SelectZeroAdaptConst::<_, _, 2, 1>::new(Rank9::new(b()))); r b s z);
    // ---- structures whose backend was replaced after construction with `map` (the documented way of adding a
    //      rank structure underneath an existing selector): everything but the backend must be carried over
    stack!(run, "map:SelectAdapt(AddNumBits->Rank9)", unsafe { SelectAdapt::new(AddNumBits::from(b()), 3).map(|a| Rank9::new(a.into_inner())) }; r b s x);
    stack!(run, "map:SelectAdapt(AddNumBits->Rank9)", unsafe { SelectAdapt::with_inv(AddNumBits::from(b()), 5, 1).map(|a| Rank9::new(a.into_inner())) }; r b s x);
    stack!(run, "map:SelectZeroAdapt(SelectAdapt(AddNumBits->Rank9))",
        unsafe { SelectZeroAdapt::new(SelectAdapt::new(AddNumBits::from(b()), 3), 3).map(|inner| inner.map(|a| Rank9::new(a.into_inner()))) }; r b s z);
    stack!(run, "map:SelectAdaptConst(AddNumBits->Rank9)", unsafe { SelectAdaptConst::<_, _>::new(AddNumBits::from(b())).map(|a| Rank9::new(a.into_inner())) }; r b s);
    stack!(run, "map:SelectZeroAdaptConst<2,1>(SelectAdaptConst<2,1>(AddNumBits->RankSmall<1,9>))",
        unsafe { SelectZeroAdaptConst::<_, _, 2, 1>::new(SelectAdaptConst::<_, _, 2, 1>::new(AddNumBits::from(b()))).map(|inner| inner.map(|a| rank_small![1; a.into_inner()])) }; r b s z);
    stack!(run, "map:Rank9(BitVec->BitVec<Box>)", unsafe { Rank9::new(b()).map(|v| -> BitVec<Box<[usize]>> { v.into() }) }; r b);
    stack!(run, "map:RankSmall<3,13>(BitVec->BitVec<Box>)", unsafe { rank_small![4; b()].map(|v| -> BitVec<Box<[usize]>> { v.into() }) }; r b);
    // ---- RankSmall underneath its own selectors and the adaptive ones
    stack!(run, "SelectZeroSmall(SelectSmall(RankSmall<2,9>))", SelectZeroSmall::<2, 9, _>::new(SelectSmall::<2, 9, _>::new(rank_small![0; b()])); r b s z);
    stack!(run, "SelectZeroSmall(SelectSmall(RankSmall<1,9>))", SelectZeroSmall::<1, 9, _>::new(SelectSmall::<1, 9, _>::new(rank_small![1; b()])); r b s z);
    stack!(run, "SelectZeroSmall(SelectSmall(RankSmall<1,10>))", SelectZeroSmall::<1, 10, _>::new(SelectSmall::<1, 10, _>::new(rank_small![2; b()])); r b s z);
    stack!(run, "SelectZeroSmall(SelectSmall(RankSmall<1,11>))", SelectZeroSmall::<1, 11, _>::new(SelectSmall::<1, 11, _>::new(rank_small![3; b()])); r b s z);
    stack!(run, "SelectZeroSmall(SelectSmall(RankSmall<3,13>))", SelectZeroSmall::<3, 13, _>::new(SelectSmall::<3, 13, _>::new(rank_small![4; b()])); r b s z);
    stack!(run, "SelectSmall(SelectZeroSmall(RankSmall<1,9>))", SelectSmall::<1, 9, _>::new(SelectZeroSmall::<1, 9, _>::new(rank_small![1; b()])); r b s z);
    stack!(run, "SelectSmall(RankSmall<2,9>)", SelectSmall::<2, 9, _>::new(rank_small![0; b()]); r b s x);
    stack!(run, "SelectZeroAdapt(SelectAdapt(RankSmall<1,9>))", SelectZeroAdapt::new(SelectAdapt::new(rank_small![1; b()], 3), 3); r b s z);
    stack!(run, "SelectAdaptConst(RankSmall<3,13>)", SelectAdaptConst::<_, _>::new(rank_small![4; b()]); r b s);
    for bpi in [1usize, 2, 8, 100] {
        stack!(run, &format!("SelectZeroSmall(SelectSmall(RankSmall<1,9>)) with_inv({bpi})"),
            SelectZeroSmall::<1, 9, _>::with_inv(SelectSmall::<1, 9, _>::with_inv(rank_small![1; b()], bpi), bpi); s z);
        stack!(run, &format!("SelectZeroSmall(SelectSmall(RankSmall<3,13>)) with_inv({bpi})"),
            SelectZeroSmall::<3, 13, _>::with_inv(SelectSmall::<3, 13, _>::with_inv(rank_small![4; b()], bpi), bpi); s z);
    }
    // ---- AddNumBits base, parameter sweeps of the adaptive selectors
    let invs: &[usize] = if thorough { &[0, 1, 2, 3, 4, 5, 9, 12] } else { &[0, 1, 3, 5, 12] };
    let subs: &[usize] = if thorough { &[0, 1, 2, 3] } else { &[0, 1, 3] };
    for &inv in invs {
        for &sub in subs {
            stack!(run, &format!("SelectZeroAdapt(SelectAdapt(AddNumBits)) with_inv({inv},{sub})"),
                SelectZeroAdapt::with_inv(SelectAdapt::with_inv(AddNumBits::from(b()), inv, sub), inv, sub); s z);
        }
    }
    for span in [1usize, 64, 8192] {
        for &sub in subs {
            stack!(run, &format!("SelectZeroAdapt(SelectAdapt(Rank9)) with_span({span},{sub})"),
                SelectZeroAdapt::with_span(SelectAdapt::with_span(Rank9::new(b()), span, sub), span, sub); s z);
        }
    }
    for &sub in subs {
        stack!(run, &format!("SelectZeroAdapt(SelectAdapt(AddNumBits)) new({sub})"),
            SelectZeroAdapt::new(SelectAdapt::new(AddNumBits::from(b()), sub), sub); s z);
    }
    macro_rules! konst {
        ($k:expr, $mm:expr) => {
            stack!(run, &format!("SelectZeroAdaptConst<{},{}>(SelectAdaptConst<{},{}>(AddNumBits))", $k, $mm, $k, $mm),
                SelectZeroAdaptConst::<_, _, $k, $mm>::new(SelectAdaptConst::<_, _, $k, $mm>::new(AddNumBits::from(b()))); s z);
        };
    }
    konst!(0, 0);
    konst!(1, 0);
    konst!(2, 1);
    konst!(4, 2);
    konst!(12, 3);
    konst!(13, 0);
}

// ---------------------------------------------------------------------------
// vectors

#[derive(Clone, Copy, Debug)]
enum Kind {
    Zeros,
    Ones,
    Alt,
    Every(usize),
}

fn segment(kind: Kind, len: usize, out: &mut Vec<bool>) {
    let start = out.len();
    for i in 0..len {
        out.push(match kind {
            Kind::Zeros => false,
            Kind::Ones => true,
            Kind::Alt => (start + i) % 2 == 0,
            Kind::Every(k) => i % k == k - 1,
        });
    }
}

const KINDS: [Kind; 7] = [Kind::Zeros, Kind::Ones, Kind::Alt, Kind::Every(7), Kind::Every(64), Kind::Every(65), Kind::Every(512)];

fn vectors(thorough: bool) -> Vec<(String, Vec<bool>)> {
    let mut v: Vec<(String, Vec<bool>)> = vec![];
    // (a) every-length family
    let maxlen = if thorough { 1100 } else { 600 };
    for len in 0..=maxlen {
        v.push((format!("zeros({len})"), vec![false; len]));
        if len > 0 {
            v.push((format!("ones({len})"), vec![true; len]));
            v.push((format!("alt({len})"), (0..len).map(|i| i % 2 == 1).collect()));
            for (nm, p) in [("first", 0), ("mid", len / 2), ("last", len - 1)] {
                let mut b = vec![false; len];
                b[p] = true;
                v.push((format!("single-one-{nm}({len})"), b));
                let mut b = vec![true; len];
                b[p] = false;
                v.push((format!("single-zero-{nm}({len})"), b));
            }
        }
    }
    // (b) shape grammar: concatenations of <= K segments
    let l_full: Vec<usize> = vec![1, 2, 63, 64, 65, 127, 128, 129, 255, 256, 257, 511, 512, 513, 1023, 1024, 1025, 2047, 2048, 2049, 4095, 4096, 4097, 8191, 8192, 8193];
    let l_quick: Vec<usize> = vec![64, 65, 511, 512, 513, 1024, 2049, 4096, 8191, 8193];
    let _ = &l_quick;
    let l1 = &l_full;
    for k in KINDS {
        for &l in l1.iter() {
            let mut b = vec![];
            segment(k, l, &mut b);
            v.push((format!("{k:?}x{l}"), b));
        }
    }
    let l2: Vec<usize> = if thorough { l_full.clone() } else { vec![1, 63, 64, 65, 511, 512, 513, 1025, 2049, 4097] };
    let kinds2: &[Kind] = &KINDS;
    for &k1 in kinds2 {
        for &a in &l2 {
            for &k2 in kinds2 {
                for &b2 in &l2 {
                    if matches!((k1, k2), (Kind::Zeros, Kind::Zeros) | (Kind::Ones, Kind::Ones)) {
                        continue;
                    }
                    if thorough && a + b2 > 9000 && (a > 4097 && b2 > 4097) {
                        continue;
                    }
                    let mut b = vec![];
                    segment(k1, a, &mut b);
                    segment(k2, b2, &mut b);
                    v.push((format!("{k1:?}x{a}+{k2:?}x{b2}"), b));
                }
            }
        }
    }
    if thorough {
        let l3 = [63usize, 64, 512, 513, 2048, 2049, 8192, 1, 257];
        for k1 in [Kind::Zeros, Kind::Ones, Kind::Every(7)] {
            for &a in &l3 {
                for k2 in [Kind::Zeros, Kind::Ones, Kind::Every(65)] {
                    for &b2 in &l3 {
                        for k3 in [Kind::Zeros, Kind::Ones, Kind::Alt] {
                            for &c in &l3 {
                                let mut b = vec![];
                                segment(k1, a, &mut b);
                                segment(k2, b2, &mut b);
                                segment(k3, c, &mut b);
                                v.push((format!("{k1:?}x{a}+{k2:?}x{b2}+{k3:?}x{c}"), b));
                            }
                        }
                    }
                }
            }
        }
    }
    // (c) gap families for the span-encoding thresholds of the adaptive selectors and Select9 classes
    let gaps: Vec<usize> = vec![0xFFFF, 0x10000, 0x10001];
    for &g in &gaps {
        for extra in [0usize, 1, 63, 64] {
            let len = 2 * g + 3 + extra;
            let mut b = vec![false; len];
            for p in [0, g, 2 * g, len - 1] {
                b[p] = true;
            }
            v.push((format!("ones-at-gap-{g:#x}(len {len})"), b.clone()));
            let inv: Vec<bool> = b.iter().map(|x| !x).collect();
            v.push((format!("zeros-at-gap-{g:#x}(len {len})"), inv));
        }
    }
    for base in [32_768usize, 65_536] {
        for d in [-64i64, -1, 0, 1, 64, 128, 192] {
            let len = (base as i64 + d) as usize;
            for ones in [vec![0usize], vec![len - 1], vec![0, len / 2, len - 1], vec![]] {
                let mut b = vec![false; len];
                for &p in &ones {
                    b[p] = true;
                }
                v.push((format!("sparse(len {len}, ones at {ones:?})"), b.clone()));
                if thorough || d == 0 {
                    v.push((format!("dense-inverse(len {len}, zeros at {ones:?})"), b.iter().map(|x| !x).collect()));
                }
            }
        }
    }
    // (d) dense prefix followed by a very sparse tail (and the mirror image): an inventory entry that does
    // not start at the beginning of the vector and whose span is 16 / 32 / 64-bit-subinventory sized
    for prefix in [600usize, 1024, 1536, 5000] {
        for gap in [20_000usize, 70_000, 140_000, 300_000] {
            for tail_ones in [1usize, 3] {
                let mut b: Vec<bool> = (0..prefix).map(|i| i % 8 != 7).collect();
                for t in 0..tail_ones {
                    b.extend(std::iter::repeat(false).take(gap));
                    b.push(true);
                    if t == 0 {
                        b.extend([false; 5]);
                    }
                }
                v.push((format!("dense({prefix})+{tail_ones} ones {gap} bits apart"), b.clone()));
                if gap >= 140_000 || prefix == 1024 {
                    v.push((format!("inverse of dense({prefix})+{tail_ones} ones {gap} bits apart"), b.iter().map(|x| !x).collect()));
                    let mut m = b.clone();
                    m.reverse();
                    v.push((format!("reversed dense({prefix})+{tail_ones} ones {gap} bits apart"), m));
                }
            }
        }
    }
    // (e) uniformly sparse vectors: many inventory entries with 32-bit spans, subinventories that spill,
    // and their inverses (the same for the zero-selectors); a dense block in the middle of a sparse vector
    for (g, count) in [(2049usize, 70usize), (4096, 100), (8191, 300), (70_000, 40)] {
        let len = g * count + 17;
        let b: Vec<bool> = (0..len).map(|i| i % g == g - 1).collect();
        v.push((format!("one-every-{g}(len {len})"), b.clone()));
        v.push((format!("zero-every-{g}(len {len})"), b.iter().map(|x| !x).collect()));
        let mut m = b.clone();
        for i in len / 2..(len / 2 + 3000).min(len) {
            m[i] = i % 3 != 0;
        }
        v.push((format!("one-every-{g}(len {len}) with a dense block of 3000 bits in the middle"), m));
    }
    // (f) average gaps at the boundaries between the span classes of the selection structures: Select9
    // classifies an inventory entry (512 ones) by its span in 4-word units (classes ..1, 2..=15, 16..=127,
    // 128..=255, 256..=511, 512..), i.e. average gaps of 7.75, 63.75, 127.75, 255.75 bits; the adaptive
    // selectors switch subinventory width when an entry spans 2^16 bits (gap 16 with 4096 ones per entry,
    // 2048 with 32). Ones are placed at floor(i * gap) + offset, so consecutive entries have spans just
    // below / at / above the boundary and ends that are not aligned to 4 words.
    for (num, den) in [(15usize, 2usize), (31, 4), (8, 1), (127, 2), (255, 4), (64, 1), (255, 2), (511, 4), (128, 1), (511, 2), (1023, 4), (256, 1), (16, 1), (33, 2), (31, 2), (2047, 1), (2048, 1)] {
        let ones_wanted = if num / den >= 1024 { 200 } else { 1700 };
        for offset in [0usize, 100, 191] {
            let len = ones_wanted * num / den + offset + 70;
            let mut b = vec![false; len];
            for i in 0..ones_wanted {
                b[i * num / den + offset] = true;
            }
            v.push((format!("gap {num}/{den} x {ones_wanted} ones, offset {offset}"), b.clone()));
            if offset == 100 {
                v.push((format!("inverse of gap {num}/{den} x {ones_wanted} ones, offset {offset}"), b.iter().map(|x| !x).collect()));
            }
        }
    }
    // exact multiples of an inventory quantum followed by a ragged tail
    for q in [4096usize, 8192] {
        for extra in [0usize, 1, 100] {
            let mut b = vec![true; q + extra];
            if extra > 1 {
                b[q + 50] = false;
            }
            v.push((format!("ones({q})+ragged({extra})"), b));
        }
    }
    v
}

fn main() {
    let mut ctx = Ctx::from_args();
    start_watchdog(300);
    let prop = ctx.opt("prop").unwrap_or("C01").to_string();
    let thorough = ctx.thorough();
    // Tail::SpareDirtyWords (garbage supplied through the unsafe from_raw_parts) is outside C01/C02: the
    // property quantifies over stale bits left by pop or truncation only.
    let tails: &[Tail] = &[Tail::Fresh, Tail::Popped, Tail::Truncated, Tail::SpareZeroWords, Tail::WholeVectorWriters, Tail::SpareGarbageWords];
    for (vname, bits) in vectors(thorough) {
        let m = Model::new(bits);
        let pos = positions(m.len());
        for &tail in tails {
            // garbage in extra words: only for the rank structures alone (Rank9 documents that the content of an
            // extra word is irrelevant); the selection structures scan the whole backing slice by design
            if tail == Tail::SpareGarbageWords && prop != "C01" {
                continue;
            }
            // long vectors: dirty tails only for a subset to bound the cost
            if m.len() > 20_000 && !matches!(tail, Tail::Fresh | Tail::Truncated) {
                continue;
            }
            let vdesc = format!("{vname} tail={tail:?}");
            if !ctx.common_case(|| format!("BitVec::<build-vector> {vdesc}")) {
                continue;
            }
            let bv = match guard(|| build(&m, tail)) {
                Outcome::Ret(b) => b,
                Outcome::Panic(msg) => {
                    ctx.violation(&format!("{prop}|BitVec::<build-vector>|panic"), msg);
                    continue;
                }
            };
            ctx.count(&format!("tail_{tail:?}"));
            let mut run = Run { ctx: &mut ctx, prop: prop.clone(), m: &m, pos: &pos, vdesc: &vdesc, rank_only: tail == Tail::SpareGarbageWords };
            all_stacks(&mut run, &bv, thorough);
            // the hinted primitives of the bit vector itself, called within their contract: every (position, hint
            // word) / (rank, hint one) / (rank, hint zero) combination on vectors of up to 700 bits
            if m.len() <= 700 && ctx.case(|| format!("BitVec::<hinted-primitives> vector={vdesc}")) {
                ctx.nontrivial();
                let r = guard(|| -> Option<(String, String)> {
                    if prop == "C01" {
                        for p in 0..m.len() {
                            for hw in 0..=p / 64 {
                                // SAFETY: p < len, hw * 64 <= p, hint rank = ones before hw * 64
                                let g = unsafe { RankHinted::<64>::rank_hinted(&bv, p, hw, m.prefix[hw * 64]) };
                                if g != m.prefix[p] {
                                    return Some(("BitVec::rank_hinted|wrong-answer".into(), format!("rank_hinted({p}, hint word {hw}, hint rank {}) = {g} expected {}", m.prefix[hw * 64], m.prefix[p])));
                                }
                            }
                        }
                    } else {
                        for (r, &want) in m.ones.iter().enumerate() {
                            for (hr, &hp) in m.ones[..=r].iter().enumerate() {
                                // SAFETY: hp is the position of the one of rank hr <= r
                                let g = unsafe { bv.select_hinted(r, hp, hr) };
                                if g != want {
                                    return Some(("BitVec::select_hinted|wrong-answer".into(), format!("select_hinted({r}, hint pos {hp}, hint rank {hr}) = {g} expected {want}")));
                                }
                            }
                        }
                        for (r, &want) in m.zeros.iter().enumerate() {
                            for (hr, &hp) in m.zeros[..=r].iter().enumerate() {
                                // SAFETY: hp is the position of the zero of rank hr <= r
                                let g = unsafe { bv.select_zero_hinted(r, hp, hr) };
                                if g != want {
                                    return Some(("BitVec::select_zero_hinted|wrong-answer".into(), format!("select_zero_hinted({r}, hint pos {hp}, hint rank {hr}) = {g} expected {want}")));
                                }
                            }
                        }
                    }
                    None
                });
                match r {
                    Outcome::Ret(None) => {}
                    Outcome::Ret(Some((k, w))) => ctx.violation(&format!("{prop}|{k}"), format!("{vdesc}: {w}")),
                    Outcome::Panic(msg) => ctx.violation(&format!("{prop}|BitVec::<hinted-primitives>|panic"), format!("{vdesc}: {msg}")),
                }
            }
            // which subinventory encodings did the adaptive selectors build on this vector? (verification hook)
            if prop == "C02" && tail == Tail::Fresh && ctx.case(|| format!("SelectAdapt::<span-type-census> vector={vdesc}")) {
                for inv in [0usize, 3, 5, 12] {
                    for sub in [0usize, 1, 3] {
                        if let Outcome::Ret((a, z)) = guard(|| {
                            (SelectAdapt::with_inv(AddNumBits::from(bv.clone()), inv, sub).verif_span_counts(), SelectZeroAdapt::with_inv(AddNumBits::from(bv.clone()), inv, sub).verif_span_counts())
                        }) {
                            for c in [a, z] {
                                ctx.add("inventory_entries_u16_span", c[0] as u64);
                                ctx.add("inventory_entries_u32_span", c[1] as u64);
                                ctx.add("inventory_entries_u64_span", c[2] as u64);
                                ctx.add("spill_words", c[3] as u64);
                                if c[1] > 0 && c[3] > 0 {
                                    ctx.count("structures_with_u32_spans_and_spill");
                                }
                            }
                        }
                    }
                }
            }
        }
    }
    ctx.finish();
}

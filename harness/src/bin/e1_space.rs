//! C11 — every structure stays within its documented space overhead.
//! Additive constants (fixed in DESIGN.md §5 C11 before the engine existed).
use dsi_progress_logger::no_logging;
use mem_dbg::*;
use sux::func::shard_edge::*;
use sux::prelude::*;
use sux::utils::FromIntoIterator;
use vh::rt::*;

fn bits<T: MemSize>(x: &T) -> usize {
    x.mem_size(SizeFlags::default()) * 8
}

fn rank_select(ctx: &mut Ctx, lens: &[usize]) {
    for &len in lens {
        for (dn, dens) in [("ones", 0usize), ("zeros", 1), ("one-per-512", 2), ("alternating", 3)] {
            if !ctx.case(|| format!("rank/select space len={len} density={dn}")) {
                continue;
            }
            if len > 64 {
                ctx.nontrivial();
            }
            let r = guard(|| {
                let bv: BitVec = match dens {
                    0 => BitVec::with_value(len, true),
                    1 => BitVec::new(len),
                    2 => (0..len).map(|i| i % 512 == 511).collect(),
                    _ => (0..len).map(|i| i % 2 == 0).collect(),
                };
                let base = bits(&bv);
                let words = len.div_ceil(64) * 64;
                if base > words + 64 * 8 {
                    return vec![("BitVec", format!("a built bit vector of {len} bits reports {base} bits"))];
                }
                let mut out = vec![];
                let mut chk = |name: &'static str, tot: usize, sub: usize, num: usize, den: usize| {
                    let over = tot.saturating_sub(sub);
                    let bound = (len * num).div_ceil(den) + 1024;
                    if over > bound {
                        out.push((name, format!("len={len}: overhead {over} bits > {num}/{den} len + 1024 = {bound}")));
                    }
                };
                let r9 = Rank9::new(bv.clone());
                let r9b = bits(&r9);
                chk("Rank9", r9b, base, 1, 4);
                chk("RankSmall<2,9>", bits(&rank_small![0; bv.clone()]), base, 3, 16);
                chk("RankSmall<1,9>", bits(&rank_small![1; bv.clone()]), base, 1, 8);
                chk("RankSmall<1,10>", bits(&rank_small![2; bv.clone()]), base, 1, 16);
                chk("RankSmall<1,11>", bits(&rank_small![3; bv.clone()]), base, 1, 32);
                chk("RankSmall<3,13>", bits(&rank_small![4; bv.clone()]), base, 1, 64);
                chk("Select9", bits(&Select9::new(r9)), r9b, 3, 8);
                out
            });
            match r {
                Outcome::Ret(v) => {
                    for (site, what) in v {
                        ctx.violation(&format!("C11|{site}|space-bound-exceeded"), what);
                    }
                }
                Outcome::Panic(m) => ctx.violation("C11|rank/select|panic", m),
            }
        }
    }
}

fn vectors(ctx: &mut Ctx) {
    // built or grown only: len * width rounded up to words (+ padding word for new_unaligned, one word minimum)
    if !ctx.case(|| "BitVec/BitFieldVec built-or-grown space: all lengths 0..=300 x widths".to_string()) {
        return;
    }
    ctx.nontrivial();
    for len in 0..=300usize {
        let mut b = BitVec::new(0);
        for i in 0..len {
            b.push(i % 3 == 0);
        }
        let w = b.as_ref().len();
        if w > len.div_ceil(64) {
            ctx.violation("C11|BitVec::push|space-bound-exceeded", format!("len={len}: {w} backing words"));
        }
        // built or grown from iterators of every kind of size hint (exact, upper bound too large, unknown)
        let src = 3 * len + 5;
        let shapes: Vec<(&str, BitVec)> = vec![
            ("collect(exact)", (0..len).map(|i| i % 3 == 0).collect()),
            ("collect(filter)", (0..src).filter(|i| i % 3 == 0).take(len).map(|i| i % 2 == 0).collect()),
            ("collect(filter, hint 3x)", (0..src).filter(|i| i % 3 == 1).map(|i| i % 2 == 0).collect::<BitVec>()),
            ("collect(take_while)", (0..src).take_while(|&i| i < len).map(|i| i % 5 == 0).collect()),
            ("collect(flat_map)", (0..len.div_ceil(2)).flat_map(|i| [i % 2 == 0, true]).take(len).collect()),
            ("extend(filter)", {
                let mut b = BitVec::new(len / 2);
                b.extend((0..src).filter(|i| i % 7 == 0).map(|_| true));
                b
            }),
            ("extend(chain)", {
                let mut b: BitVec = (0..len / 3).map(|_| false).collect();
                b.extend((0..len / 3).map(|_| true).chain(std::iter::once(false)));
                b
            }),
        ];
        for (nm, b) in shapes {
            ctx.sub_evaluations += 1;
            let l = b.len();
            if b.as_ref().len() > l.div_ceil(64) {
                ctx.violation("C11|BitVec::extend|space-bound-exceeded", format!("{nm}: a bit vector of {l} bits built from an iterator has {} backing words, {} suffice (mem_size {} bytes)", b.as_ref().len(), l.div_ceil(64), bits(&b) / 8));
            }
        }
        let f: BitFieldVec<usize> = {
            let mut f = BitFieldVec::<usize>::new(7, 0);
            f.extend((0..src).filter(|i| i % 3 == 0).map(|i| i % 128));
            f
        };
        if f.as_slice().len() > (f.len() * 7).div_ceil(64).max(1) {
            ctx.violation("C11|BitFieldVec::extend|space-bound-exceeded", format!("extend(filter): {} elements of 7 bits in {} words", f.len(), f.as_slice().len()));
        }
        if BitVec::new(len).as_ref().len() != len.div_ceil(64) || BitVec::with_value(len, true).as_ref().len() != len.div_ceil(64) {
            ctx.violation("C11|BitVec::new|space-bound-exceeded", format!("len={len}"));
        }
        for width in [0usize, 1, 3, 7, 13, 32, 33, 63, 64] {
            ctx.sub_evaluations += 1;
            let need = (len * width).div_ceil(64);
            let n = BitFieldVec::<usize>::new(width, len).as_slice().len();
            if n > need.max(1) {
                ctx.violation("C11|BitFieldVec::new|space-bound-exceeded", format!("len={len} width={width}: {n} words"));
            }
            let n = BitFieldVec::<usize>::new_unaligned(width, len).as_slice().len();
            if n > need + 1 {
                ctx.violation("C11|BitFieldVec::new_unaligned|space-bound-exceeded", format!("len={len} width={width}: {n} words"));
            }
            let mut g = BitFieldVec::<usize>::new(width, 0);
            for _ in 0..len {
                g.push(0);
            }
            let n = g.as_slice().len();
            if n > need.max(1) {
                ctx.violation("C11|BitFieldVec::push|space-bound-exceeded", format!("len={len} width={width}: {n} words after pushes"));
            }
            let mut g = BitFieldVec::<usize>::new(width, 0);
            g.resize(len, 0);
            if g.as_slice().len() > need.max(1) {
                ctx.violation("C11|BitFieldVec::resize|space-bound-exceeded", format!("len={len} width={width}"));
            }
        }
    }
}

fn elias_fano(ctx: &mut Ctx, nmax: usize, umax: usize) {
    for n in 0..=nmax {
        if !ctx.case(|| format!("EliasFano space n={n} all u in 0..={umax} and split probes")) {
            continue;
        }
        if n >= 2 {
            ctx.nontrivial();
        }
        let mut us: Vec<usize> = (0..=umax).collect();
        for k in 13..=58u32 {
            if let Some(b) = n.max(1).checked_mul(1usize << k) {
                us.extend([b - 1, b, b + 1]);
            }
        }
        us.extend([(1 << 63) - 1, 1 << 63, usize::MAX - 1, usize::MAX]);
        for u in us {
            ctx.sub_evaluations += 1;
            let r = guard(|| {
                let mut b = EliasFanoBuilder::new(n, u);
                for i in 0..n {
                    b.push(if n > 1 { (u as u128 * i as u128 / (n as u128 - 1)) as usize } else { u });
                }
                bits(&b.build())
            });
            match r {
                Outcome::Panic(m) => ctx.violation("C11|EliasFanoBuilder|panic", format!("n={n} u={u}: {m}")),
                Outcome::Ret(tot) => {
                    let lg = if n > 0 && u > n { (u as f64 / n as f64).log2().max(0.0) } else { 0.0 };
                    let bound = (n as f64 * (2.0 + lg)).ceil() as usize + 1024 + 128;
                    if tot > bound {
                        ctx.violation("C11|EliasFano|space-bound-exceeded", format!("n={n} u={u}: mem_size = {tot} bits > n(2 + max(0, lg(u/n))) + 1152 = {bound}"));
                    }
                }
            }
        }
    }
}

/// Larger sequences, both builders: with thousands of elements an excess proportional to n (a lower-bit
/// count one too large costs up to half a bit per element) is no longer hidden by the additive constant.
/// u = n 2^k y for every k and several y in [1, 2): the fractional parts of lg n and lg u in both orders.
fn elias_fano_large(ctx: &mut Ctx, thorough: bool) {
    let ns: &[usize] = if thorough { &[1000, 3000, 7000, 40_000, 100_000, 700_000] } else { &[1000, 7000, 100_000] };
    for &n in ns {
        for k in (0..=40u32).step_by(if thorough { 1 } else { 3 }) {
            if !ctx.case(|| format!("EliasFano space, both builders, n={n} u = n 2^{k} y for 8 values of y")) {
                continue;
            }
            ctx.nontrivial();
            for y in [1.0f64, 1.05, 1.2, 1.42, 1.5, 1.75, 1.9, 1.999] {
                let u = (n as f64 * (1u64 << k) as f64 * y) as usize;
                for concurrent in [false, true] {
                    ctx.sub_evaluations += 1;
                    let val = |i: usize| (u as u128 * i as u128 / (n as u128 - 1)) as usize;
                    let r = guard(|| {
                        if concurrent {
                            let b = EliasFanoConcurrentBuilder::new(n, u);
                            for i in 0..n {
                                // SAFETY: each index once, monotone values within u
                                unsafe { b.set(i, val(i)) };
                            }
                            bits(&b.build())
                        } else {
                            let mut b = EliasFanoBuilder::new(n, u);
                            for i in 0..n {
                                b.push(val(i));
                            }
                            bits(&b.build())
                        }
                    });
                    match r {
                        Outcome::Panic(m) => ctx.violation("C11|EliasFanoBuilder|panic", format!("n={n} u={u} concurrent={concurrent}: {m}")),
                        Outcome::Ret(tot) => {
                            let lg = if u > n { (u as f64 / n as f64).log2().max(0.0) } else { 0.0 };
                            let bound = (n as f64 * (2.0 + lg)).ceil() as usize + 1024 + 128;
                            if tot > bound {
                                ctx.violation(
                                    if concurrent { "C11|EliasFanoConcurrentBuilder|space-bound-exceeded" } else { "C11|EliasFano|space-bound-exceeded" },
                                    format!("n={n} u={u}: mem_size = {tot} bits > n(2 + max(0, lg(u/n))) + 1152 = {bound}"),
                                );
                            }
                        }
                    }
                }
            }
        }
    }
}

fn edge_arith<S: sux::utils::Sig, E: ShardEdge<S, 3>>(ctx: &mut Ctx, name: &str, sharded_default: bool, mwhc: bool, thorough: bool) {
    let mut ns: Vec<usize> = (0..=if thorough { 4_000_000 } else { 60_000 }).collect();
    let mut x = ns.len() as f64;
    while x < 1e12 {
        ns.push(x as usize);
        x *= 1.01;
    }
    for s in [2usize, 4, 8] {
        let hi = 100_000 * s;
        ns.extend([hi - 1, hi, hi + 1, hi * 100 / 101 + 1]);
    }
    ns.sort();
    ns.dedup();
    for chunk in ns.chunks(4096) {
        if !ctx.case(|| format!("{name} cells/n arithmetic for n in {}..={} ({} values)", chunk[0], chunk[chunk.len() - 1], chunk.len())) {
            continue;
        }
        ctx.nontrivial();
        for &n in chunk {
            ctx.sub_evaluations += 1;
            let r = guard(|| {
                let mut e = E::default();
                e.set_up_shards(n, 0.001);
                let s = e.num_shards();
                let ms = if s == 1 { n } else { ((1.01 * n as f64) / s as f64).floor() as usize };
                e.set_up_graphs(n, ms);
                (e.num_vertices(), s, e.num_sort_keys())
            });
            let Outcome::Ret((nv, s, sk)) = r else { continue }; // set-up panics belong to C16
            let cells = nv as u128 * s as u128;
            let c = if sharded_default && n >= 100_000 { 1.135 } else { 1.23 };
            let seg = nv / (sk + 2);
            let slack = if mwhc { 384 * s } else { 2 * seg * s } as u128 + 8;
            let bound = (c * n as f64).ceil() as u128 + slack;
            if cells > bound {
                ctx.violation(&format!("C11|{name}|space-bound-exceeded"), format!("n={n}: {cells} cells ({} shards x {nv}) > {c} n + {slack} = {bound}", s));
            }
        }
    }
}

fn real_funcs(ctx: &mut Ctx, thorough: bool) {
    let mut sizes: Vec<usize> = vec![0, 1, 2, 10, 99, 100, 101, 1000, 10_000];
    if thorough {
        sizes.extend([99_999, 100_000, 100_001, 150_000, 400_001]);
    } else {
        sizes.push(100_000);
    }
    // cells allowed by the property for n keys: c n plus two segments per shard (largest admissible shard)
    let cells = |n: usize| {
        let mut e = FuseLge3Shards::default();
        e.set_up_shards(n, 0.001);
        let s = e.num_shards();
        let ms = if s == 1 { n } else { ((1.01 * n as f64) / s as f64).floor() as usize };
        e.set_up_graphs(n, ms);
        let seg = e.num_vertices() / (e.num_sort_keys() + 2);
        let c = if n >= 100_000 { 1.135 } else { 1.23 };
        (c * n as f64).ceil() as usize + 2 * seg * s
    };
    // every value width of every backend word (the cell width must be the value width, whatever it is;
    // boxed slices cost one word per cell)
    macro_rules! widths {
        ($W:ty, $ns:expr, $bs:expr) => {
            for &n in $ns {
                for b in $bs {
                    let b: usize = b;
                    if !ctx.case(|| format!("VFunc real build space backend=BitFieldVec<{}>/Box<[{}]> n={n} value bits={b}", stringify!($W), stringify!($W))) {
                        continue;
                    }
                    ctx.nontrivial();
                    let m: $W = <$W>::MAX >> (<$W>::BITS as usize - b);
                    let r = guard(|| {
                        let f = VBuilder::<$W, BitFieldVec<$W>>::default()
                            .expected_num_keys(n)
                            .try_build_func(FromIntoIterator::from(0..n), FromIntoIterator::from((0..n).map(move |i| if i == 0 { m } else { (i as $W) & m })), no_logging![])
                            .unwrap();
                        let g = if b == <$W>::BITS as usize || b == 1 {
                            let g = VBuilder::<$W, Box<[$W]>>::default()
                                .expected_num_keys(n)
                                .try_build_func(FromIntoIterator::from(0..n), FromIntoIterator::from((0..n).map(move |i| if i == 0 { m } else { (i as $W) & m })), no_logging![])
                                .unwrap();
                            Some(bits(&g))
                        } else {
                            None
                        };
                        (bits(&f), g)
                    });
                    match r {
                        Outcome::Panic(msg) => ctx.violation("C11|VFunc|panic", format!("n={n} b={b}: {msg}")),
                        Outcome::Ret((fb, gb)) => {
                            let bound = cells(n) * b + <$W>::BITS as usize + 64 + 128 + 1024;
                            if fb > bound {
                                ctx.violation("C11|VFunc|space-bound-exceeded", format!("BitFieldVec<{}> n={n} b={b}: mem_size = {fb} bits > cells(n) b + const = {bound}", stringify!($W)));
                            }
                            if let Some(gb) = gb {
                                let bound = cells(n) * <$W>::BITS as usize + 64 + 128 + 1024;
                                if gb > bound {
                                    ctx.violation("C11|VFunc|space-bound-exceeded", format!("Box<[{}]> n={n}: mem_size = {gb} bits > cells(n) BITS + const = {bound}", stringify!($W)));
                                }
                            }
                        }
                    }
                }
            }
        };
    }
    widths!(usize, &[1000usize, 100_000], 1..=64usize);
    widths!(u64, &[1000usize], [1usize, 31, 59, 61, 63, 64]);
    widths!(u32, &[1000usize, 100_000], [1usize, 7, 16, 17, 29, 31, 32]);
    widths!(u16, &[1000usize, 100_000], 1..=16usize);
    widths!(u8, &[1000usize, 100_000], 1..=8usize);
    for n in sizes {
        for b in [1usize, 5, 8, 13] {
            if !ctx.case(|| format!("VFunc/VFilter real build space n={n} value bits={b}")) {
                continue;
            }
            ctx.nontrivial();
            let r = guard(|| {
                let m = (1usize << b) - 1;
                let f = VBuilder::<usize, BitFieldVec<usize>>::default()
                    .expected_num_keys(n)
                    .try_build_func(FromIntoIterator::from(0..n), FromIntoIterator::from((0..n).map(move |i| if i == 0 { m } else { i & m })), no_logging![])
                    .unwrap();
                let flt = VBuilder::<usize, BitFieldVec<usize>>::default().expected_num_keys(n).try_build_filter(FromIntoIterator::from(0..n), b, no_logging![]).unwrap();
                (bits(&f), bits(&flt))
            });
            match r {
                Outcome::Panic(msg) => ctx.violation("C11|VFunc|panic", format!("n={n} b={b}: {msg}")),
                Outcome::Ret((fb, flb)) => {
                    // bound from the arithmetic of the same shard/edge logic with the largest admissible shard
                    let mut e = FuseLge3Shards::default();
                    e.set_up_shards(n, 0.001);
                    let s = e.num_shards();
                    let ms = if s == 1 { n } else { ((1.01 * n as f64) / s as f64).floor() as usize };
                    e.set_up_graphs(n, ms);
                    let seg = e.num_vertices() / (e.num_sort_keys() + 2);
                    let c = if n >= 100_000 { 1.135 } else { 1.23 };
                    let eff_b = if n == 0 { 0 } else { b };
                    let bound = ((c * n as f64).ceil() as usize + 2 * seg * s) * eff_b.max(1) + 64 + 128 + 1024;
                    if fb > bound {
                        ctx.violation("C11|VFunc|space-bound-exceeded", format!("n={n} b={b}: mem_size = {fb} bits > ({c} n + 2 segments/shard) b + 1216 = {bound}"));
                    }
                    let boundf = ((c * n as f64).ceil() as usize + 2 * seg * s) * b + 64 + 128 + 1024;
                    if flb > boundf {
                        ctx.violation("C11|VFilter|space-bound-exceeded", format!("n={n} b={b}: mem_size = {flb} bits > {boundf}"));
                    }
                }
            }
        }
    }
}

/// Seed sweep without a hint in the sharded linear regime: the builder must never allocate more cells than the
/// largest admissible shard (1% above the average) needs, whatever the seed.
fn sweep(ctx: &mut Ctx, thorough: bool) {
    // choose n so that the largest admissible shard floor(1.01 n / shards) fills its last segment exactly:
    // one more key in the largest shard then needs one more 512-cell segment per shard, so an accepted
    // shard above the 1% slack is visible in mem_size
    let cells = |n: usize, extra: usize| {
        let mut e = FuseLge3Shards::default();
        e.set_up_shards(n, 0.001);
        let s = e.num_shards();
        e.set_up_graphs(n, ((1.01 * n as f64) / s as f64).floor() as usize + extra);
        e.num_vertices() * s
    };
    let n = (400_000usize..410_000).find(|&n| cells(n, 1) > cells(n, 0)).unwrap_or(400_928);
    ctx.add("sweep_n", 0);
    for seed in 0..if thorough { 64u64 } else { 32 } {
        for hinted in [false, true] {
            if hinted && seed % 4 != 0 {
                continue;
            }
            if !ctx.case(|| format!("VFunc real build space n={n} seed={seed} expected_num_keys={}", if hinted { "exact" } else { "absent" })) {
                continue;
            }
            ctx.nontrivial();
            let b = 19usize;
            let r = guard(|| {
                let mut vb = VBuilder::<usize, BitFieldVec<usize>>::default().seed(seed);
                if hinted {
                    vb = vb.expected_num_keys(n);
                }
                let f = vb.try_build_func(FromIntoIterator::from(0..n), FromIntoIterator::from((0..n).map(|i| if i == 0 { (1 << 19) - 1 } else { i & 0x7FFFF })), no_logging![]).unwrap();
                bits(&f)
            });
            match r {
                Outcome::Panic(m) => ctx.violation("C11|VFunc|panic", format!("n={n} seed={seed}: {m}")),
                Outcome::Ret(fb) => {
                    let mut e = FuseLge3Shards::default();
                    e.set_up_shards(n, 0.001);
                    let s = e.num_shards();
                    let ms = ((1.01 * n as f64) / s as f64).floor() as usize;
                    e.set_up_graphs(n, ms);
                    let adm = e.num_vertices() * s;
                    let bound = adm * b + 4096;
                    ctx.add("max_sweep_bits_per_key_x1000", 0);
                    let c = ctx.counters.entry("max_sweep_cells_per_key_x10000".into()).or_insert(0);
                    *c = (*c).max((fb as f64 / b as f64 / n as f64 * 10000.0) as u64);
                    if fb > bound {
                        ctx.violation(
                            "C11|VFunc|more-cells-than-the-largest-admissible-shard-needs",
                            format!("n={n} seed={seed} hint={}: mem_size = {fb} bits = {:.4} n b > {adm} cells x {b} bits + 4096 = {bound} ({:.4} n b)", if hinted { "exact" } else { "absent" }, fb as f64 / (n * b) as f64, bound as f64 / (n * b) as f64),
                        );
                    }
                    if fb as f64 > 1.135 * (n * b) as f64 + (2 * 512 * s * b) as f64 + 4096.0 {
                        ctx.violation("C11|VFunc|space-bound-exceeded", format!("n={n} seed={seed}: {fb} bits = {:.4} n b", fb as f64 / (n * b) as f64));
                    }
                }
            }
        }
    }
}

fn main() {
    let mut ctx = Ctx::from_args();
    start_watchdog(300);
    let t = ctx.thorough();
    let mut lens: Vec<usize> = (0..=if t { 200_000 } else { 5_000 }).collect();
    for k in 13..=26u32 {
        let p = 1usize << k;
        lens.extend([p - 1, p, p + 1]);
    }
    rank_select(&mut ctx, &lens);
    vectors(&mut ctx);
    elias_fano(&mut ctx, 64, if t { 4096 } else { 600 });
    elias_fano_large(&mut ctx, t);
    edge_arith::<[u64; 2], FuseLge3Shards>(&mut ctx, "FuseLge3Shards", true, false, t);
    edge_arith::<[u64; 2], FuseLge3FullSigs>(&mut ctx, "FuseLge3FullSigs", true, false, t);
    edge_arith::<[u64; 2], FuseLge3NoShards>(&mut ctx, "FuseLge3NoShards", false, false, t);
    edge_arith::<[u64; 2], Mwhc3Shards>(&mut ctx, "Mwhc3Shards", false, true, t);
    edge_arith::<[u64; 2], Mwhc3NoShards>(&mut ctx, "Mwhc3NoShards", false, true, t);
    real_funcs(&mut ctx, t);
    sweep(&mut ctx, t);
    ctx.finish();
}

//! C19 — GF(2) solvers: every system over a small space, both solvers, against
//! brute force over all assignments per bit-plane.
use sux::traits::Word;
use sux::utils::mod2_sys::{Modulo2Equation, Modulo2System};
use vh::rt::*;

fn run_space<W: Word + TryFrom<usize>>(ctx: &mut Ctx, wname: &str, v: usize, emax: usize, cbits: u32)
where
    <W as TryFrom<usize>>::Error: std::fmt::Debug,
{
    let subsets: Vec<Vec<u32>> =
        (1u32..(1 << v)).map(|m| (0..v as u32).filter(|i| m >> i & 1 == 1).collect()).collect();
    let eqs: Vec<(Vec<u32>, usize)> =
        subsets.iter().flat_map(|s| (0..(1usize << cbits)).map(move |c| (s.clone(), c))).collect();
    let ne = eqs.len();
    for e in 0..=emax {
        // one case per (e, first equation); inner loop over the remaining e-1
        let firsts = if e == 0 { 1 } else { ne };
        for f in 0..firsts {
            if !ctx.case(|| format!("gf2 W={wname} v={v} e={e} cbits={cbits} first_eq={f}")) {
                continue;
            }
            let rest = if e <= 1 { 1 } else { ne.pow(e as u32 - 1) };
            for mut code in 0..rest {
                let mut sys: Vec<&(Vec<u32>, usize)> = Vec::with_capacity(e);
                if e >= 1 {
                    sys.push(&eqs[f]);
                }
                for _ in 1..e {
                    sys.push(&eqs[code % ne]);
                    code /= ne;
                }
                // brute force per bit-plane
                let mut solvable = true;
                for bit in 0..cbits {
                    let ok = (0..(1u32 << v)).any(|a| {
                        sys.iter().all(|(vars, c)| {
                            (vars.iter().filter(|&&x| a >> x & 1 == 1).count() & 1) == (c >> bit & 1)
                        })
                    });
                    if !ok {
                        solvable = false;
                        break;
                    }
                }
                ctx.sub_evaluations += 1;
                if e >= 2 {
                    ctx.nontrivial_extra += 1;
                }
                ctx.count(if solvable { "solvable" } else { "unsolvable" });
                for lazy in [false, true] {
                    let mk = || {
                        let mut s = Modulo2System::<W>::new(v);
                        for (vars, c) in &sys {
                            s.push(unsafe { Modulo2Equation::from_parts(vars.clone(), W::try_from(*c).unwrap()) });
                        }
                        s
                    };
                    let name = if lazy { "lazy_gaussian_elimination" } else { "gaussian_elimination" };
                    let r = guard(|| {
                        let mut s = mk();
                        if lazy {
                            s.lazy_gaussian_elimination()
                        } else {
                            s.gaussian_elimination()
                        }
                    });
                    let bad: Option<(&str, String)> = match r {
                        Outcome::Panic(m) => Some(("panic", m)),
                        Outcome::Ret(Ok(sol)) => {
                            // independent evaluation
                            let own = sol.len() == v
                                && sys.iter().all(|(vars, c)| {
                                    let mut x = W::ZERO;
                                    for &i in vars {
                                        x ^= sol[i as usize];
                                    }
                                    x == W::try_from(*c).unwrap()
                                });
                            let chk = guard(|| mk().check(&sol)).ok().unwrap_or(false);
                            if !solvable {
                                Some(("ok-on-unsolvable", format!("{:?}", sol)))
                            } else if !own {
                                Some(("bad-solution", format!("{:?}", sol)))
                            } else if !chk {
                                Some(("check-rejects-valid-solution", format!("{:?}", sol)))
                            } else {
                                None
                            }
                        }
                        Outcome::Ret(Err(_)) => {
                            if solvable {
                                Some(("err-on-solvable", String::new()))
                            } else {
                                None
                            }
                        }
                    };
                    if let Some((class, what)) = bad {
                        ctx.violation(&format!("C19|Modulo2System::{name}|{class}"), format!("system={:?} {what}", sys));
                    }
                }
            }
        }
    }
}

/// Reference decision for systems too large for brute force: Gaussian elimination on bitset rows,
/// one constant word per row (all bit planes at once: a row that reduces to 0 = c with c != 0 is a contradiction).
fn ref_solvable(num_vars: usize, sys: &[(Vec<u32>, usize)]) -> bool {
    let words = num_vars.div_ceil(64).max(1);
    let mut rows: Vec<(Vec<u64>, usize)> = sys
        .iter()
        .map(|(vars, c)| {
            let mut b = vec![0u64; words];
            for &v in vars {
                b[v as usize / 64] ^= 1 << (v % 64);
            }
            (b, *c)
        })
        .collect();
    let mut r = 0;
    for col in 0..num_vars {
        if r == rows.len() {
            break;
        }
        if let Some(p) = (r..rows.len()).find(|&i| rows[i].0[col / 64] >> (col % 64) & 1 == 1) {
            rows.swap(r, p);
            let (pb, pc) = rows[r].clone();
            for (i, row) in rows.iter_mut().enumerate() {
                if i != r && row.0[col / 64] >> (col % 64) & 1 == 1 {
                    for (x, y) in row.0.iter_mut().zip(&pb) {
                        *x ^= y;
                    }
                    row.1 ^= pc;
                }
            }
            r += 1;
        }
    }
    rows.iter().all(|(b, c)| b.iter().any(|&w| w != 0) || *c == 0)
}

/// Systems with very wide equations (counters of the lazy solver that must not be narrower than the
/// number of variables of an equation: widths around 2^8 and 2^16).
fn wide_systems(ctx: &mut Ctx, thorough: bool) {
    let mut widths: Vec<usize> = vec![1, 2, 3, 254, 255, 256, 257, 258, 300, 511, 512, 513, 1000];
    if thorough {
        widths.extend([65_535, 65_536, 65_537, 70_000]);
    } else {
        widths.extend([65_536, 65_537]);
    }
    let eq = |start: usize, width: usize, step: usize| -> Vec<u32> { (0..width).map(|i| (start + i * step) as u32).collect() };
    for (ia, &wa) in widths.iter().enumerate() {
        for &wb in &widths[ia..] {
            if !ctx.case(|| format!("gf2 wide equations: widths {wa} and {wb} (+ a third short one), all offset / constant combinations")) {
                continue;
            }
            ctx.nontrivial();
            let num_vars = 2 * (wa + wb) + 8;
            for (sa, sb, step_b) in [(0usize, 0usize, 1usize), (0, wa / 2, 1), (3, 0, 2), (0, wa.saturating_sub(1), 1)] {
                for consts in 0..16usize {
                    for third in [None, Some(vec![0u32, 1]), Some(vec![(sb + (wb - 1) * step_b) as u32]), Some(eq(sa, wa, 1))] {
                        let mut sys: Vec<(Vec<u32>, usize)> = vec![(eq(sa, wa, 1), consts & 3), (eq(sb, wb, step_b), consts >> 2)];
                        if let Some(t) = third {
                            sys.push((t, (consts ^ (consts >> 1)) & 3));
                        }
                        ctx.sub_evaluations += 1;
                        ctx.nontrivial_extra += 1;
                        let solvable = ref_solvable(num_vars, &sys);
                        for lazy in [false, true] {
                            let mk = || {
                                let mut s = Modulo2System::<usize>::new(num_vars);
                                for (vars, c) in &sys {
                                    s.push(unsafe { Modulo2Equation::from_parts(vars.clone(), *c) });
                                }
                                s
                            };
                            let name = if lazy { "lazy_gaussian_elimination" } else { "gaussian_elimination" };
                            let r = guard(|| {
                                let mut s = mk();
                                if lazy {
                                    s.lazy_gaussian_elimination()
                                } else {
                                    s.gaussian_elimination()
                                }
                            });
                            let desc = format!("equations of {} variables (start {sa}) and {} variables (start {sb}, step {step_b}){}, constants {:?}", wa, wb, if sys.len() > 2 { format!(" and {} variables", sys[2].0.len()) } else { String::new() }, sys.iter().map(|e| e.1).collect::<Vec<_>>());
                            match r {
                                Outcome::Panic(m) => ctx.violation(&format!("C19|Modulo2System::{name}|panic"), format!("{desc}: {m}")),
                                Outcome::Ret(Ok(sol)) => {
                                    let own = sol.len() == num_vars && sys.iter().all(|(vars, c)| vars.iter().fold(0usize, |x, &i| x ^ sol[i as usize]) == *c);
                                    if !solvable {
                                        ctx.violation(&format!("C19|Modulo2System::{name}|ok-on-unsolvable"), desc);
                                    } else if !own {
                                        ctx.violation(&format!("C19|Modulo2System::{name}|bad-solution"), desc);
                                    } else if !guard(|| mk().check(&sol)).ok().unwrap_or(false) {
                                        ctx.violation(&format!("C19|Modulo2System::{name}|check-rejects-valid-solution"), desc);
                                    }
                                }
                                Outcome::Ret(Err(_)) => {
                                    if solvable {
                                        ctx.violation(&format!("C19|Modulo2System::{name}|err-on-solvable"), desc);
                                    }
                                }
                            }
                        }
                    }
                }
            }
        }
    }
}

fn main() {
    let mut ctx = Ctx::from_args();
    start_watchdog(120);
    let t = ctx.thorough();
    // (v, emax, cbits)
    let mut spaces: Vec<(usize, usize, u32)> = vec![(1, 4, 2), (2, 4, 2), (3, 4, 2), (4, 3, 2), (4, 4, 1), (5, 3, 1), (4, 4, 2), (6, 3, 1)];
    if ctx.thorough() {
        spaces.extend([(3, 5, 2), (5, 4, 1), (4, 5, 1), (5, 4, 2), (7, 3, 1), (6, 4, 1), (8, 3, 1)]);
    }
    for &(v, e, c) in &spaces {
        run_space::<usize>(&mut ctx, "usize", v, e, c);
    }
    for &(v, e, c) in &spaces {
        if v <= 4 && e <= 3 {
            run_space::<u8>(&mut ctx, "u8", v, e, c);
        }
    }
    wide_systems(&mut ctx, t);
    ctx.finish();
}

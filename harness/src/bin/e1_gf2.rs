//! C19 — GF(2) solvers: every system over a small space, both solvers, against
//! brute force over all assignments per bit-plane.
use sux::traits::Word;
use sux::utils::mod2_sys::{Modulo2Equation, Modulo2System};
use vh::rt::*;

fn run_space<W: Word + TryFrom<usize>>(ctx: &mut Ctx, wname: &str, v: usize, emax: usize, cbits: u32)
where
    <W as TryFrom<usize>>::Error: std::fmt::Debug,
{
    let subsets: Vec<Vec<u32>> =
        (1u32..(1 << v)).map(|m| (0..v as u32).filter(|i| m >> i & 1 == 1).collect()).collect();
    let eqs: Vec<(Vec<u32>, usize)> =
        subsets.iter().flat_map(|s| (0..(1usize << cbits)).map(move |c| (s.clone(), c))).collect();
    let ne = eqs.len();
    for e in 0..=emax {
        // one case per (e, first equation); inner loop over the remaining e-1
        let firsts = if e == 0 { 1 } else { ne };
        for f in 0..firsts {
            if !ctx.case(|| format!("gf2 W={wname} v={v} e={e} cbits={cbits} first_eq={f}")) {
                continue;
            }
            let rest = if e <= 1 { 1 } else { ne.pow(e as u32 - 1) };
            for mut code in 0..rest {
                let mut sys: Vec<&(Vec<u32>, usize)> = Vec::with_capacity(e);
                if e >= 1 {
                    sys.push(&eqs[f]);
                }
                for _ in 1..e {
                    sys.push(&eqs[code % ne]);
                    code /= ne;
                }
                // brute force per bit-plane
                let mut solvable = true;
                for bit in 0..cbits {
                    let ok = (0..(1u32 << v)).any(|a| {
                        sys.iter().all(|(vars, c)| {
                            (vars.iter().filter(|&&x| a >> x & 1 == 1).count() & 1) == (c >> bit & 1)
                        })
                    });
                    if !ok {
                        solvable = false;
                        break;
                    }
                }
                ctx.sub_evaluations += 1;
                if e >= 2 {
                    ctx.nontrivial_extra += 1;
                }
                ctx.count(if solvable { "solvable" } else { "unsolvable" });
                for lazy in [false, true] {
                    let mk = || {
                        let mut s = Modulo2System::<W>::new(v);
                        for (vars, c) in &sys {
                            s.push(unsafe { Modulo2Equation::from_parts(vars.clone(), W::try_from(*c).unwrap()) });
                        }
                        s
                    };
                    let name = if lazy { "lazy_gaussian_elimination" } else { "gaussian_elimination" };
                    let r = guard(|| {
                        let mut s = mk();
                        if lazy {
                            s.lazy_gaussian_elimination()
                        } else {
                            s.gaussian_elimination()
                        }
                    });
                    let bad: Option<(&str, String)> = match r {
                        Outcome::Panic(m) => Some(("panic", m)),
                        Outcome::Ret(Ok(sol)) => {
                            // independent evaluation
                            let own = sol.len() == v
                                && sys.iter().all(|(vars, c)| {
                                    let mut x = W::ZERO;
                                    for &i in vars {
                                        x ^= sol[i as usize];
                                    }
                                    x == W::try_from(*c).unwrap()
                                });
                            let chk = guard(|| mk().check(&sol)).ok().unwrap_or(false);
                            if !solvable {
                                Some(("ok-on-unsolvable", format!("{:?}", sol)))
                            } else if !own {
                                Some(("bad-solution", format!("{:?}", sol)))
                            } else if !chk {
                                Some(("check-rejects-valid-solution", format!("{:?}", sol)))
                            } else {
                                None
                            }
                        }
                        Outcome::Ret(Err(_)) => {
                            if solvable {
                                Some(("err-on-solvable", String::new()))
                            } else {
                                None
                            }
                        }
                    };
                    if let Some((class, what)) = bad {
                        ctx.violation(&format!("C19|Modulo2System::{name}|{class}"), format!("system={:?} {what}", sys));
                    }
                }
            }
        }
    }
}

fn main() {
    let mut ctx = Ctx::from_args();
    start_watchdog(120);
    // (v, emax, cbits)
    let mut spaces: Vec<(usize, usize, u32)> = vec![(1, 4, 2), (2, 4, 2), (3, 4, 2), (4, 3, 2), (4, 4, 1), (5, 3, 1), (4, 4, 2), (6, 3, 1)];
    if ctx.thorough() {
        spaces.extend([(3, 5, 2), (5, 4, 1), (4, 5, 1), (5, 4, 2), (7, 3, 1)]);
    }
    for &(v, e, c) in &spaces {
        run_space::<usize>(&mut ctx, "usize", v, e, c);
    }
    for &(v, e, c) in &spaces {
        if v <= 4 && e <= 3 {
            run_space::<u8>(&mut ctx, "u8", v, e, c);
        }
    }
    ctx.finish();
}

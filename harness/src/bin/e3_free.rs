//! C13 companion — the bodies of `e3_sched` run *free* (no controlled scheduler, real
//! unsynchronised threads) so that a data-race detector can see them: the controlled scheduler's
//! hand-offs are happens-before edges that would hide a race on a non-atomic access. Meant to be
//! run under Miri (`cargo +nightly miri run --bin e3_free`, several scheduler seeds), whose
//! vector-clock race detector and borrow tracker check every access the bodies make. This is a
//! complement to the exhaustive exploration, not part of it: it decides nothing about
//! interleavings, it only shows that the shared accesses the scheduler does not intercept are
//! absent (everything shared goes through atomics).
use std::sync::atomic::Ordering::Relaxed;
use sux::prelude::*;

fn bitvec_bodies() -> usize {
    let mut n = 0;
    for (i, j) in [(3usize, 5usize), (3, 3), (63, 64), (64, 127), (129, 0)] {
        let b: BitVec = (0..130).map(|k| k % 3 == 0).collect();
        let v: AtomicBitVec = b.into();
        std::thread::scope(|s| {
            s.spawn(|| {
                v.set(i, true, Relaxed);
                v.swap(j, false, Relaxed)
            });
            s.spawn(|| {
                v.swap(i, true, Relaxed);
                v.get(j, Relaxed)
            });
            s.spawn(|| v.get(i, Relaxed) | v.get(j, Relaxed));
        });
        assert!(i == j || (v.get(i, Relaxed) && !v.get(j, Relaxed)));
        n += 1;
    }
    n
}

macro_rules! bfv_bodies {
    ($W:ty, $widths:expr) => {{
        let mut n = 0;
        for &width in $widths {
            let len = 3 * (<$W>::BITS as usize).div_ceil(width) + 3;
            let mask: $W = <$W>::MAX >> (<$W>::BITS as usize - width);
            let v = AtomicBitFieldVec::<$W>::new(width, len);
            for i in 0..len {
                v.set_atomic(i, (i as $W).wrapping_mul(37) & mask, Relaxed);
            }
            let a = &v;
            std::thread::scope(|s| {
                // every thread writes the elements of its own residue class; neighbours share words
                for t in 0..3usize {
                    s.spawn(move || {
                        for i in (t..len).step_by(3) {
                            a.set_atomic(i, mask - ((i as $W) & mask), Relaxed);
                        }
                    });
                }
                s.spawn(move || (0..len).fold(0u64, |x, i| x ^ a.get_atomic(i, Relaxed) as u64));
            });
            for i in 0..len {
                assert_eq!(v.get_atomic(i, Relaxed), mask - ((i as $W) & mask), "width {width} element {i}");
            }
            n += 1;
        }
        n
    }};
}

fn ef_bodies() -> usize {
    let mut n = 0;
    for (vals, u) in [((0..40usize).map(|i| i * 3 + i % 3).collect::<Vec<_>>(), 200usize), ((0..40).map(|i| i / 5).collect(), 8), ((0..33).map(|i| i << 20).collect(), 1 << 26)] {
        let efb = EliasFanoConcurrentBuilder::new(vals.len(), u);
        let (b, vs) = (&efb, &vals);
        std::thread::scope(|s| {
            for t in 0..4usize {
                s.spawn(move || {
                    for i in (t..vs.len()).step_by(4) {
                        // SAFETY: each index is set once, values are monotone and within u
                        unsafe { b.set(i, vs[i]) };
                    }
                });
            }
        });
        let ef = efb.build();
        assert_eq!(ef.iter().collect::<Vec<_>>(), vals);
        n += 1;
    }
    n
}

fn main() {
    let a = bitvec_bodies();
    let b = bfv_bodies!(u8, &[1usize, 3, 5, 7, 8]) + bfv_bodies!(u16, &[3usize, 11, 16]) + bfv_bodies!(usize, &[1usize, 7, 33, 63, 64]);
    let c = ef_bodies();
    println!("@@FREE bodies bitvec={a} bitfield={b} elias_fano={c}");
}

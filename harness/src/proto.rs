//! E5 — explicit-state model of `VBuilder::par_solve` (producer, k workers,
//! bounded data channel, error channel, `failed` flag, scope join) and its
//! binding to the code: the event log produced by the add-only hooks of the
//! real `par_solve` is replayed through the model's transition function.
//!
//! One observable event per hook site; a few unobservable (tau) steps: a
//! pending `send` completing into the buffer, the producer's `send` failing
//! because every receiver is gone, the main thread dropping its own receiver
//! clone. Logging discipline of the hooks (see DESIGN.md §2.5): enabling
//! operations are logged before they are performed, enabled ones after.

use std::collections::{BTreeSet, VecDeque};

#[derive(Clone, Copy, Debug, PartialEq, Eq, Hash, PartialOrd, Ord)]
pub enum Out {
    /// solvable shard
    Ok,
    /// empty shard: the worker returns
    Empty,
    /// duplicate signature detected while analysing the shard
    Dup,
    /// unsolvable shard
    Unsolvable,
}

#[derive(Clone, Copy, Debug, PartialEq, Eq, Hash, PartialOrd, Ord)]
pub enum Ev {
    SendBegin(usize),
    DropSender,
    Recv(usize, usize),
    RecvDisc(usize),
    EmptyExit(usize, usize),
    ErrSend(usize, usize),
    SawFailed(usize, usize),
    SolveBegin(usize, usize),
    Completed(usize, usize),
    SetFailed,
    MainOk,
    End(bool),
    // unobservable
    TauSendComplete,
    TauSendAbort,
    TauMainDropRecv,
}

impl Ev {
    pub fn is_tau(&self) -> bool {
        matches!(self, Ev::TauSendComplete | Ev::TauSendAbort | Ev::TauMainDropRecv)
    }
}

#[derive(Clone, Copy, Debug, PartialEq, Eq, Hash, PartialOrd, Ord)]
pub enum Prod {
    /// about to send shard `next` (or to drop the sender when next == shards)
    Idle,
    /// `send_begin(i)` logged, the item is offered to the channel
    Sending(usize),
    /// `send` returned an error (no receivers): the loop is left
    Aborted,
    Dropped,
}

#[derive(Clone, Copy, Debug, PartialEq, Eq, Hash, PartialOrd, Ord)]
pub enum Wk {
    Idle,
    Got(usize),
    Solving(usize),
    Exited,
}

#[derive(Clone, Copy, Debug, PartialEq, Eq, Hash, PartialOrd, Ord)]
pub enum Main {
    Waiting,
    Failed,
    OkReturned,
    Ended(bool),
}

#[derive(Clone, Debug, PartialEq, Eq, Hash, PartialOrd, Ord)]
pub struct State {
    pub shards: usize,
    pub cap: usize,
    pub next: usize,
    pub prod: Prod,
    pub chan: VecDeque<usize>,
    pub main_recv_dropped: bool,
    pub workers: Vec<Wk>,
    pub err_queue: usize,
    pub failed: bool,
    pub main: Main,
    pub solved: BTreeSet<usize>,
    pub emptied: BTreeSet<usize>,
    /// per-shard outcomes when exploring; None when replaying a trace (any outcome accepted)
    pub outcomes: Option<Vec<Out>>,
}

impl State {
    pub fn new(workers: usize, shards: usize, outcomes: Option<Vec<Out>>) -> Self {
        State {
            shards,
            cap: workers.ilog2() as usize,
            next: 0,
            prod: Prod::Idle,
            chan: VecDeque::new(),
            main_recv_dropped: false,
            workers: vec![Wk::Idle; workers],
            err_queue: 0,
            failed: false,
            main: Main::Waiting,
            solved: BTreeSet::new(),
            emptied: BTreeSet::new(),
            outcomes,
        }
    }

    fn out(&self, i: usize) -> Option<Out> {
        self.outcomes.as_ref().map(|o| o[i])
    }

    fn all_workers_exited(&self) -> bool {
        self.workers.iter().all(|w| *w == Wk::Exited)
    }

    /// Applies an event; None if it is not enabled in this state.
    pub fn apply(&self, ev: Ev) -> Option<State> {
        let mut s = self.clone();
        if let Main::Ended(_) = s.main {
            return None;
        }
        match ev {
            Ev::SendBegin(i) => {
                if s.prod != Prod::Idle || s.next != i || i >= s.shards {
                    return None;
                }
                s.prod = Prod::Sending(i);
            }
            Ev::TauSendComplete => {
                let Prod::Sending(i) = s.prod else { return None };
                // A worker blocked in recv may already have taken the item although its
                // `recv` event is not logged yet: idle workers count as buffer slots.
                let idle = s.workers.iter().filter(|w| **w == Wk::Idle).count();
                if s.chan.len() >= s.cap + idle {
                    return None;
                }
                s.chan.push_back(i);
                s.next = i + 1;
                s.prod = Prod::Idle;
            }
            Ev::TauSendAbort => {
                let Prod::Sending(_) = s.prod else { return None };
                if !(s.main_recv_dropped && s.all_workers_exited()) {
                    return None;
                }
                s.prod = Prod::Aborted;
            }
            Ev::TauMainDropRecv => {
                if s.main_recv_dropped {
                    return None;
                }
                s.main_recv_dropped = true;
            }
            Ev::DropSender => {
                let ok = (s.prod == Prod::Idle && s.next == s.shards) || s.prod == Prod::Aborted;
                if !ok {
                    return None;
                }
                s.prod = Prod::Dropped;
            }
            Ev::Recv(w, i) => {
                if w >= s.workers.len() || s.workers[w] != Wk::Idle {
                    return None;
                }
                // Items are received in FIFO order, but `recv` events are logged after the call returned,
                // so two workers can log their receptions in the opposite order: an item may be logged
                // while up to (number of other idle workers) earlier items are still unlogged.
                let other_idle = s.workers.iter().enumerate().filter(|(j, x)| *j != w && **x == Wk::Idle).count();
                let pending = match s.prod {
                    Prod::Sending(p) => Some(p),
                    _ => None,
                };
                let pos = s.chan.iter().position(|&x| x == i).or(if pending == Some(i) { Some(s.chan.len()) } else { None })?;
                if pos > other_idle {
                    return None;
                }
                if pos < s.chan.len() {
                    s.chan.remove(pos);
                } else {
                    // direct hand-over of the pending send
                    s.next = i + 1;
                    s.prod = Prod::Idle;
                }
                s.workers[w] = Wk::Got(i);
            }
            Ev::RecvDisc(w) => {
                if w >= s.workers.len() || s.workers[w] != Wk::Idle || s.prod != Prod::Dropped {
                    return None;
                }
                // items still in the model's channel may have been taken by other idle workers that have
                // not logged their `recv` yet
                let other_idle = s.workers.iter().enumerate().filter(|(j, x)| *j != w && **x == Wk::Idle).count();
                if s.chan.len() > other_idle {
                    return None;
                }
                s.workers[w] = Wk::Exited;
            }
            Ev::EmptyExit(w, i) => {
                if w >= s.workers.len() || s.workers[w] != Wk::Got(i) || !matches!(s.out(i), None | Some(Out::Empty)) {
                    return None;
                }
                s.emptied.insert(i);
                s.workers[w] = Wk::Exited;
            }
            Ev::ErrSend(w, i) => {
                if w >= s.workers.len() {
                    return None;
                }
                let ok = match s.workers[w] {
                    Wk::Got(j) => j == i && matches!(s.out(i), None | Some(Out::Dup)),
                    Wk::Solving(j) => j == i && matches!(s.out(i), None | Some(Out::Unsolvable)),
                    _ => false,
                };
                if !ok {
                    return None;
                }
                s.err_queue += 1;
                s.workers[w] = Wk::Exited;
            }
            Ev::SawFailed(w, i) => {
                if w >= s.workers.len() || !s.failed {
                    return None;
                }
                let ok = match s.workers[w] {
                    Wk::Got(j) => j == i && matches!(s.out(i), None | Some(Out::Ok) | Some(Out::Unsolvable)),
                    Wk::Solving(j) => j == i && matches!(s.out(i), None | Some(Out::Ok)),
                    _ => false,
                };
                if !ok {
                    return None;
                }
                s.workers[w] = Wk::Exited;
            }
            Ev::SolveBegin(w, i) => {
                if w >= s.workers.len() || s.workers[w] != Wk::Got(i) || !matches!(s.out(i), None | Some(Out::Ok) | Some(Out::Unsolvable)) {
                    return None;
                }
                // when exploring, the flag read is atomic with this step: a worker that sees it set exits instead
                if s.outcomes.is_some() && s.failed {
                    return None;
                }
                s.workers[w] = Wk::Solving(i);
            }
            Ev::Completed(w, i) => {
                if w >= s.workers.len() || s.workers[w] != Wk::Solving(i) || !matches!(s.out(i), None | Some(Out::Ok)) {
                    return None;
                }
                if s.outcomes.is_some() && s.failed {
                    return None;
                }
                if !s.solved.insert(i) {
                    return None; // solved twice
                }
                s.workers[w] = Wk::Idle;
            }
            Ev::SetFailed => {
                if s.main != Main::Waiting || s.err_queue == 0 {
                    return None;
                }
                s.err_queue -= 1;
                s.failed = true;
                s.main = Main::Failed;
            }
            Ev::MainOk => {
                if s.main != Main::Waiting || s.err_queue != 0 || !s.all_workers_exited() {
                    return None;
                }
                s.main = Main::OkReturned;
            }
            Ev::End(ok) => {
                let m = if ok { Main::OkReturned } else { Main::Failed };
                if s.main != m || !s.all_workers_exited() || s.prod != Prod::Dropped {
                    return None;
                }
                s.main = Main::Ended(ok);
            }
        }
        Some(s)
    }

    /// All events enabled in this state (used by the exploration; requires outcomes).
    pub fn enabled(&self) -> Vec<Ev> {
        let mut cand = vec![Ev::TauSendComplete, Ev::TauSendAbort, Ev::TauMainDropRecv, Ev::DropSender, Ev::SetFailed, Ev::MainOk, Ev::End(true), Ev::End(false)];
        if self.next < self.shards {
            cand.push(Ev::SendBegin(self.next));
        }
        for w in 0..self.workers.len() {
            cand.push(Ev::RecvDisc(w));
            for &i in self.chan.iter() {
                cand.push(Ev::Recv(w, i));
            }
            if let Prod::Sending(i) = self.prod {
                cand.push(Ev::Recv(w, i));
            }
            match self.workers[w] {
                Wk::Got(i) | Wk::Solving(i) => {
                    cand.extend([Ev::EmptyExit(w, i), Ev::ErrSend(w, i), Ev::SawFailed(w, i), Ev::SolveBegin(w, i), Ev::Completed(w, i)]);
                }
                _ => {}
            }
        }
        cand.into_iter().filter(|e| self.apply(*e).is_some()).collect()
    }

    pub fn is_terminal(&self) -> bool {
        matches!(self.main, Main::Ended(_))
    }

    /// Consistency of a terminal state: Ok => every shard solved exactly once or
    /// found empty; a shard known to fail => Err.
    pub fn terminal_violation(&self) -> Option<String> {
        let Main::Ended(ok) = self.main else { return None };
        if ok {
            for i in 0..self.shards {
                if !self.solved.contains(&i) && !self.emptied.contains(&i) {
                    return Some(format!("par_solve returned Ok but shard {i} was neither solved nor empty"));
                }
            }
            if let Some(o) = &self.outcomes {
                if let Some(i) = o.iter().position(|x| matches!(x, Out::Dup | Out::Unsolvable)) {
                    return Some(format!("par_solve returned Ok although shard {i} fails ({:?})", o[i]));
                }
            }
        }
        None
    }
}

fn tau_closure(set: BTreeSet<State>) -> BTreeSet<State> {
    let mut all = set.clone();
    let mut frontier: Vec<State> = set.into_iter().collect();
    while let Some(s) = frontier.pop() {
        for t in [Ev::TauSendComplete, Ev::TauSendAbort, Ev::TauMainDropRecv] {
            if let Some(n) = s.apply(t) {
                if all.insert(n.clone()) {
                    frontier.push(n);
                }
            }
        }
    }
    all
}

pub type RawEvent = (&'static str, usize, usize);

/// Splits a raw hook log into one trace per `par_solve` invocation.
pub fn split_traces(ev: &[RawEvent]) -> Vec<Vec<RawEvent>> {
    let mut out = vec![];
    let mut cur: Option<Vec<RawEvent>> = None;
    for e in ev {
        if e.0 == "ps.start" {
            cur = Some(vec![*e]);
        } else if let Some(c) = cur.as_mut() {
            c.push(*e);
            if e.0 == "ps.end" {
                out.push(cur.take().unwrap());
            }
        }
    }
    if let Some(c) = cur {
        out.push(c); // unterminated trace: replay will report it
    }
    out
}

fn decode(e: &RawEvent) -> Option<Ev> {
    Some(match e.0 {
        "ps.send_begin" => Ev::SendBegin(e.1),
        "ps.drop_sender" => Ev::DropSender,
        "ps.recv" => Ev::Recv(e.1, e.2),
        "ps.recv_disc" => Ev::RecvDisc(e.1),
        "ps.empty_exit" => Ev::EmptyExit(e.1, e.2),
        "ps.err_send_begin" => Ev::ErrSend(e.1, e.2),
        "ps.saw_failed" => Ev::SawFailed(e.1, e.2),
        "ps.solve_begin" => Ev::SolveBegin(e.1, e.2),
        "ps.completed" => Ev::Completed(e.1, e.2),
        "ps.set_failed" => Ev::SetFailed,
        "ps.main_ok" => Ev::MainOk,
        "ps.end" => Ev::End(e.1 == 1),
        _ => return None,
    })
}

/// Replays one real trace through the model (subset construction over tau steps).
pub fn replay(trace: &[RawEvent]) -> Result<(), String> {
    let first = trace.first().ok_or("empty trace")?;
    if first.0 != "ps.start" {
        return Err(format!("trace does not begin with ps.start: {first:?}"));
    }
    let mut set: BTreeSet<State> = BTreeSet::new();
    set.insert(State::new(first.1, first.2, None));
    for (k, raw) in trace.iter().enumerate().skip(1) {
        let ev = decode(raw).ok_or(format!("unknown event {raw:?}"))?;
        let closed = tau_closure(set);
        let next: BTreeSet<State> = closed.iter().filter_map(|s| s.apply(ev)).collect();
        if next.is_empty() {
            return Err(format!("event #{k} {ev:?} is not enabled in any model state compatible with the log so far (workers={}, shards={}); log = {:?}", first.1, first.2, &trace[..=k]));
        }
        set = next;
    }
    match set.iter().next() {
        Some(s) if s.is_terminal() => {
            for s in &set {
                if let Some(v) = s.terminal_violation() {
                    return Err(format!("terminal state inconsistent: {v}; log = {trace:?}"));
                }
            }
            Ok(())
        }
        _ => Err(format!("trace ends before ps.end: {:?}", trace.last())),
    }
}

pub mod bfs;
pub mod models;
pub mod rt;

pub mod bfs;
pub mod models;
pub mod proto;
pub mod rt;
pub mod sched;

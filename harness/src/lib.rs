pub mod rt;
pub mod models;

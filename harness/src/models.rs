//! Reference models, kept boring.

/// Bits as a plain vector of booleans.
pub type RefBits = Vec<bool>;

pub fn rank(b: &[bool], p: usize) -> usize {
    b[..p.min(b.len())].iter().filter(|&&x| x).count()
}

pub fn select(b: &[bool], r: usize, bit: bool) -> Option<usize> {
    let mut c = 0;
    for (i, &x) in b.iter().enumerate() {
        if x == bit {
            if c == r {
                return Some(i);
            }
            c += 1;
        }
    }
    None
}

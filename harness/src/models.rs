//! Reference models, kept boring.

/// Bits as a plain vector of booleans.
pub type RefBits = Vec<bool>;

pub fn rank(b: &[bool], p: usize) -> usize {
    b[..p.min(b.len())].iter().filter(|&&x| x).count()
}

pub fn select(b: &[bool], r: usize, bit: bool) -> Option<usize> {
    let mut c = 0;
    for (i, &x) in b.iter().enumerate() {
        if x == bit {
            if c == r {
                return Some(i);
            }
            c += 1;
        }
    }
    None
}

/// The iterator protocol beyond a plain pass: an implementation is free to override `nth`, `count`,
/// `last`, `size_hint` (and thereby `skip`, `step_by`), so they are observations of their own.
/// `mk` creates a fresh iterator whose items must be `exp`. Returns a description of the first
/// disagreement with the slice iterator over `exp`.
pub fn iter_protocol<T: PartialEq + std::fmt::Debug + Clone, I: Iterator<Item = T>>(mk: impl Fn() -> I, exp: &[T]) -> Option<String> {
    let n = exp.len();
    // plain pass with size hints, then polling after the end
    let mut it = mk();
    for (i, e) in exp.iter().enumerate() {
        let (lo, hi) = it.size_hint();
        if lo > n - i || hi.is_some_and(|h| h < n - i) {
            return Some(format!("size_hint() = ({lo}, {hi:?}) with {} items left", n - i));
        }
        match it.next() {
            Some(x) if &x == e => {}
            other => return Some(format!("item {i} = {other:?} expected {e:?}")),
        }
    }
    for round in 0..3 {
        // an exhausted iterator has nothing left, however often it is polled: its hint must say so
        let (lo, hi) = it.size_hint();
        if lo != 0 || hi.is_some_and(|h| h != 0) && round > 0 {
            return Some(format!("size_hint() = ({lo}, {hi:?}) on an exhausted iterator (polled {round} times after the end)"));
        }
        if let Some(x) = it.next() {
            return Some(format!("next() after the last item = Some({x:?})"));
        }
    }
    let mut ks: Vec<usize> = vec![0, 1, 2, 63, 64, n.saturating_sub(1), n, n + 1, n + 63, n + 64, usize::MAX];
    ks.sort();
    ks.dedup();
    for &k in &ks {
        let mut it = mk();
        let g = it.nth(k);
        if g.as_ref() != exp.get(k) {
            return Some(format!("nth({k}) = {g:?} expected {:?} ({n} items)", exp.get(k)));
        }
        let g2 = it.next();
        let e2 = k.checked_add(1).and_then(|j| exp.get(j));
        if g2.as_ref() != e2 {
            return Some(format!("next() after nth({k}) = {g2:?} expected {e2:?} ({n} items)"));
        }
        // two jumps in a row (a cursor advanced past the end must stay at the end)
        let mut it = mk();
        let _ = it.nth(k);
        let g3 = it.nth(k);
        let e3 = k.checked_mul(2).and_then(|j| j.checked_add(1)).and_then(|j| exp.get(j));
        if g3.as_ref() != e3 {
            return Some(format!("nth({k}) twice = {g3:?} expected {e3:?} ({n} items)"));
        }
        let c = mk().skip(k).count();
        if c != n.saturating_sub(k) {
            return Some(format!("skip({k}).count() = {c} expected {}", n.saturating_sub(k)));
        }
    }
    for s in [1usize, 2, 3, 7, 64, n.max(1), n + 1] {
        let g: Vec<T> = mk().step_by(s).take(n + 2).collect();
        let e: Vec<T> = exp.iter().step_by(s).cloned().collect();
        if g != e {
            return Some(format!("step_by({s}) yields {} items {:?}.. expected {} items {:?}..", g.len(), &g[..g.len().min(4)], e.len(), &e[..e.len().min(4)]));
        }
    }
    if mk().count() != n {
        return Some(format!("count() = {} expected {n}", mk().count()));
    }
    if mk().last().as_ref() != exp.last() {
        return Some(format!("last() = {:?} expected {:?}", mk().last(), exp.last()));
    }
    None
}

//! Worker-side runtime shared by all engines: argument parsing, sharding,
//! case announcement for crash isolation, panic capture, counters, violation
//! records and the JSON result file read by the supervisor (`/verif/check`).
//!
//! Protocol: `bin --tier quick|thorough --shard I/N [--only IDX] [--skip a,b,c]
//! --out FILE [--opt k=v ...]`. The worker enumerates *all* cases of its space
//! in a fixed order, runs those with `idx % N == I`, and writes one JSON
//! object to FILE at the end. If the process dies (UB-check abort, SIGSEGV,
//! watchdog), a signal handler writes `@@CRASH case=<idx> sig=<n> desc=<...>`
//! to stderr; the supervisor records it and reruns the shard with that case
//! skipped.

use std::collections::{BTreeMap, BTreeSet, HashSet};
use std::fmt::Write as _;
use std::panic::{catch_unwind, AssertUnwindSafe};
use std::sync::atomic::{AtomicU64, AtomicUsize, Ordering};

#[derive(Clone, Copy, PartialEq, Eq, Debug)]
pub enum Tier {
    Quick,
    Thorough,
}

static CUR_CASE: AtomicU64 = AtomicU64::new(u64::MAX);
static CASE_EPOCH: AtomicU64 = AtomicU64::new(0);
static DESC_LEN: AtomicUsize = AtomicUsize::new(0);
static mut DESC: [u8; 1024] = [0; 1024];
static WATCHDOG_SECS: AtomicU64 = AtomicU64::new(0);
/// Auxiliary position inside a case (e.g. BFS state index and operation index), printed on a crash.
pub static AUX1: AtomicU64 = AtomicU64::new(0);
pub static AUX2: AtomicU64 = AtomicU64::new(0);

fn write_all_fd2(mut b: &[u8]) {
    while !b.is_empty() {
        let n = unsafe { libc::write(2, b.as_ptr() as *const libc::c_void, b.len()) };
        if n <= 0 {
            break;
        }
        b = &b[n as usize..];
    }
}

fn fmt_u64(mut v: u64, buf: &mut [u8; 24]) -> &[u8] {
    let mut i = buf.len();
    if v == 0 {
        i -= 1;
        buf[i] = b'0';
    }
    while v > 0 {
        i -= 1;
        buf[i] = b'0' + (v % 10) as u8;
        v /= 10;
    }
    &buf[i..]
}

fn emit_crash(kind: &[u8], sig: u64) {
    let mut b = [0u8; 24];
    write_all_fd2(b"\n@@");
    write_all_fd2(kind);
    write_all_fd2(b" case=");
    write_all_fd2(fmt_u64(CUR_CASE.load(Ordering::SeqCst), &mut b));
    write_all_fd2(b" sig=");
    write_all_fd2(fmt_u64(sig, &mut b));
    write_all_fd2(b" aux=");
    write_all_fd2(fmt_u64(AUX1.load(Ordering::Relaxed), &mut b));
    write_all_fd2(b":");
    write_all_fd2(fmt_u64(AUX2.load(Ordering::Relaxed), &mut b));
    write_all_fd2(b" desc=");
    let n = DESC_LEN.load(Ordering::SeqCst).min(1024);
    #[allow(static_mut_refs)]
    let d = unsafe { &DESC[..n] };
    write_all_fd2(d);
    write_all_fd2(b"\n");
}

extern "C" fn on_signal(sig: libc::c_int) {
    emit_crash(b"CRASH", sig as u64);
    unsafe { libc::_exit(70) }
}

thread_local! {
    static PANIC_MSG: std::cell::RefCell<String> = const { std::cell::RefCell::new(String::new()) };
    static GUARD_DEPTH: std::cell::Cell<u32> = const { std::cell::Cell::new(0) };
}

pub fn install_handlers() {
    unsafe {
        for s in [libc::SIGABRT, libc::SIGSEGV, libc::SIGBUS, libc::SIGILL, libc::SIGFPE] {
            libc::signal(s, on_signal as *const () as usize);
        }
    }
    std::panic::set_hook(Box::new(|info| {
        let msg = if let Some(s) = info.payload().downcast_ref::<&str>() {
            s.to_string()
        } else if let Some(s) = info.payload().downcast_ref::<String>() {
            s.clone()
        } else {
            "<non-string panic>".to_string()
        };
        let loc = info.location().map(|l| format!("{}:{}", l.file(), l.line())).unwrap_or_default();
        // Non-unwinding panics (UB checks) abort right after the hook: leave a trace.
        if msg.contains("unsafe precondition") || msg.contains("cannot unwind") {
            let s = format!("\n@@NOUNWIND {} at {}\n", msg.replace('\n', " "), loc);
            write_all_fd2(s.as_bytes());
        }
        if GUARD_DEPTH.with(|d| d.get()) == 0 && std::thread::current().name() == Some("main") {
            if loc.contains("/harness/") || !loc.contains("/src/") {
                // a panic of the harness itself, outside any guarded subject call
                let s = format!("\n@@HARNESS-PANIC {} at {}\n", msg.replace('\n', " "), loc);
                write_all_fd2(s.as_bytes());
            } else {
                // the subject panicked in a call the harness did not guard (it expected no panic there):
                // report it like a crash of the current case, so that it becomes a verdict and not a machinery failure
                let s = format!("\n@@SUBJECT-PANIC {} at {}\n", msg.replace('\n', " "), loc);
                write_all_fd2(s.as_bytes());
                emit_crash(b"CRASH", 100);
                unsafe { libc::_exit(70) }
            }
        }
        PANIC_MSG.with(|m| {
            let mut m = m.borrow_mut();
            m.clear();
            let _ = write!(m, "{} at {}", msg, loc);
        });
    }));
}

/// Starts a watchdog: if the current case does not change for `secs` seconds
/// the process reports `@@TIMEOUT` and exits with status 71.
pub fn start_watchdog(secs: u64) {
    WATCHDOG_SECS.store(secs, Ordering::SeqCst);
    std::thread::spawn(move || {
        let mut last = (u64::MAX, u64::MAX);
        let mut since = std::time::Instant::now();
        loop {
            std::thread::sleep(std::time::Duration::from_millis(250));
            let cur = (CUR_CASE.load(Ordering::SeqCst), CASE_EPOCH.load(Ordering::SeqCst));
            if cur != last {
                last = cur;
                since = std::time::Instant::now();
            } else if cur.0 != u64::MAX
                && since.elapsed().as_secs() >= WATCHDOG_SECS.load(Ordering::SeqCst)
            {
                emit_crash(b"TIMEOUT", 0);
                unsafe { libc::_exit(71) }
            }
        }
    });
}

/// Result of running a piece of subject code.
pub enum Outcome<T> {
    Ret(T),
    Panic(String),
}

impl<T> Outcome<T> {
    pub fn is_panic(&self) -> bool {
        matches!(self, Outcome::Panic(_))
    }
    pub fn ok(self) -> Option<T> {
        match self {
            Outcome::Ret(t) => Some(t),
            Outcome::Panic(_) => None,
        }
    }
}

/// Runs `f`, capturing an unwinding panic and its message.
pub fn guard<T>(f: impl FnOnce() -> T) -> Outcome<T> {
    GUARD_DEPTH.with(|d| d.set(d.get() + 1));
    let r = catch_unwind(AssertUnwindSafe(f));
    GUARD_DEPTH.with(|d| d.set(d.get() - 1));
    match r {
        Ok(t) => Outcome::Ret(t),
        Err(_) => Outcome::Panic(PANIC_MSG.with(|m| m.borrow().clone())),
    }
}

pub fn json_str(s: &str) -> String {
    let mut o = String::with_capacity(s.len() + 2);
    o.push('"');
    for c in s.chars() {
        match c {
            '"' => o.push_str("\\\""),
            '\\' => o.push_str("\\\\"),
            '\n' => o.push_str("\\n"),
            '\r' => o.push_str("\\r"),
            '\t' => o.push_str("\\t"),
            c if (c as u32) < 0x20 => {
                let _ = write!(o, "\\u{:04x}", c as u32);
            }
            c => o.push(c),
        }
    }
    o.push('"');
    o
}

pub struct Violation {
    pub count: u64,
    pub examples: Vec<(u64, String, String)>, // (case idx, case desc, what)
}

pub struct Ctx {
    pub tier: Tier,
    pub shard: u64,
    pub nshards: u64,
    pub only: Option<u64>,
    pub skip: HashSet<u64>,
    pub out: Option<String>,
    pub opts: BTreeMap<String, String>,
    pub next_idx: u64,
    pub cur_desc: String,
    pub evaluations: u64,
    pub nontrivial: HashSet<u64>,
    /// distinct non-trivial sub-cases counted inside cases (each counted once by construction)
    pub nontrivial_extra: u64,
    /// sub-case evaluations inside cases
    pub sub_evaluations: u64,
    pub counters: BTreeMap<String, u64>,
    pub outcomes: BTreeSet<u64>,
    pub samples: Vec<String>,
    pub max_samples: usize,
    pub violations: BTreeMap<String, Violation>,
    pub states: u64,
    pub transitions: u64,
    pub exhaustive: bool,
    pub caps: Vec<String>,
    pub started: std::time::Instant,
    pub deadline: Option<std::time::Duration>,
    pub trace_cases: bool,
}

impl Ctx {
    pub fn from_args() -> Self {
        install_handlers();
        let mut tier = Tier::Quick;
        let (mut shard, mut nshards) = (0u64, 1u64);
        let mut only = None;
        let mut skip = HashSet::new();
        let mut out = None;
        let mut opts = BTreeMap::new();
        let a: Vec<String> = std::env::args().collect();
        let mut i = 1;
        while i < a.len() {
            let v = a.get(i + 1).cloned().unwrap_or_default();
            match a[i].as_str() {
                "--tier" => tier = if v == "thorough" { Tier::Thorough } else { Tier::Quick },
                "--shard" => {
                    let (x, y) = v.split_once('/').expect("--shard I/N");
                    shard = x.parse().unwrap();
                    nshards = y.parse().unwrap();
                }
                "--only" => only = Some(v.parse().unwrap()),
                "--skip" => {
                    for x in v.split(',').filter(|x| !x.is_empty()) {
                        skip.insert(x.parse().unwrap());
                    }
                }
                "--out" => out = Some(v),
                "--opt" => {
                    let (k, val) = v.split_once('=').unwrap_or((v.as_str(), ""));
                    opts.insert(k.to_string(), val.to_string());
                }
                x => panic!("unknown argument {x}"),
            }
            i += 2;
        }
        let deadline = opts.get("deadline_s").map(|s| std::time::Duration::from_secs_f64(s.parse().unwrap()));
        Ctx {
            tier,
            shard,
            nshards,
            only,
            skip,
            out,
            opts,
            next_idx: 0,
            cur_desc: String::new(),
            evaluations: 0,
            nontrivial: HashSet::new(),
            nontrivial_extra: 0,
            sub_evaluations: 0,
            counters: BTreeMap::new(),
            outcomes: BTreeSet::new(),
            samples: Vec::new(),
            max_samples: 6,
            violations: BTreeMap::new(),
            states: 0,
            transitions: 0,
            exhaustive: true,
            caps: Vec::new(),
            started: std::time::Instant::now(),
            deadline,
            trace_cases: std::env::var_os("VH_TRACE_CASES").is_some(),
        }
    }

    pub fn thorough(&self) -> bool {
        self.tier == Tier::Thorough
    }

    pub fn opt(&self, k: &str) -> Option<&str> {
        self.opts.get(k).map(|s| s.as_str())
    }

    /// True when the soft deadline given by the supervisor has passed; engines
    /// that honour it must call [`Ctx::cap`] so the run is not reported as
    /// exhaustive.
    pub fn past_deadline(&self) -> bool {
        self.deadline.is_some_and(|d| self.started.elapsed() > d)
    }

    pub fn cap(&mut self, what: &str) {
        self.exhaustive = false;
        if !self.caps.iter().any(|c| c == what) {
            self.caps.push(what.to_string());
        }
    }

    /// Declares the next case of the enumeration. Returns true if this worker
    /// must run it; in that case the case is announced for crash reports.
    pub fn case(&mut self, desc: impl FnOnce() -> String) -> bool {
        let idx = self.next_idx;
        self.next_idx += 1;
        let mine = match self.only {
            Some(o) => o == idx,
            None => idx % self.nshards == self.shard && !self.skip.contains(&idx),
        };
        if !mine {
            return false;
        }
        self.cur_desc = desc();
        let b = self.cur_desc.as_bytes();
        let n = b.len().min(1024);
        DESC_LEN.store(0, Ordering::SeqCst);
        #[allow(static_mut_refs)]
        unsafe {
            DESC[..n].copy_from_slice(&b[..n]);
        }
        DESC_LEN.store(n, Ordering::SeqCst);
        CUR_CASE.store(idx, Ordering::SeqCst);
        CASE_EPOCH.fetch_add(1, Ordering::SeqCst);
        if self.trace_cases {
            // lets an external tool (valgrind) attribute its reports to a case
            let s = format!("@@CASE {idx} {}\n", self.cur_desc.replace('\n', " "));
            write_all_fd2(s.as_bytes());
        }
        self.evaluations += 1;
        if self.samples.len() < self.max_samples && (idx % 7 == 0 || self.samples.is_empty()) {
            let d = self.cur_desc.clone();
            self.samples.push(d);
        }
        true
    }

    /// Declares a pseudo-case run by *every* shard (e.g. construction of seed
    /// states shared by the following cases). Returns false when the supervisor
    /// asked to skip it after a crash.
    pub fn common_case(&mut self, desc: impl FnOnce() -> String) -> bool {
        let idx = self.next_idx;
        self.next_idx += 1;
        if self.skip.contains(&idx) || self.only.is_some_and(|o| o != idx && false) {
            return false;
        }
        self.cur_desc = desc();
        let b = self.cur_desc.as_bytes();
        let n = b.len().min(1024);
        DESC_LEN.store(0, Ordering::SeqCst);
        #[allow(static_mut_refs)]
        unsafe {
            DESC[..n].copy_from_slice(&b[..n]);
        }
        DESC_LEN.store(n, Ordering::SeqCst);
        CUR_CASE.store(idx, Ordering::SeqCst);
        CASE_EPOCH.fetch_add(1, Ordering::SeqCst);
        true
    }

    /// Refreshes the watchdog inside a long case.
    pub fn heartbeat(&self) {
        CASE_EPOCH.fetch_add(1, Ordering::SeqCst);
    }

    pub fn cur_idx(&self) -> u64 {
        self.next_idx.saturating_sub(1)
    }

    pub fn count(&mut self, k: &str) {
        self.add(k, 1);
    }

    pub fn add(&mut self, k: &str, n: u64) {
        if let Some(c) = self.counters.get_mut(k) {
            *c += n;
        } else {
            self.counters.insert(k.to_string(), n);
        }
    }

    /// Marks the current case as non-trivial (distinctness = case identity).
    pub fn nontrivial(&mut self) {
        let i = self.cur_idx();
        self.nontrivial.insert(i);
    }

    pub fn outcome(&mut self, h: u64) {
        if self.outcomes.len() < 4096 {
            self.outcomes.insert(h);
        }
    }

    /// Records a violation under a finding key `<prop>|<site>|<class>`.
    pub fn violation(&mut self, key: &str, what: String) {
        // `--opt relabel=C10:C14`: the same engine serving another property reports under that property's id
        let relabelled;
        let key = match self.opts.get("relabel").and_then(|r| r.split_once(':')) {
            Some((from, to)) if key.starts_with(from) => {
                relabelled = format!("{to}{}", &key[from.len()..]);
                relabelled.as_str()
            }
            _ => key,
        };
        let idx = self.cur_idx();
        let desc = self.cur_desc.clone();
        let v = self.violations.entry(key.to_string()).or_insert(Violation { count: 0, examples: vec![] });
        v.count += 1;
        if v.examples.len() < 3 {
            v.examples.push((idx, desc, what));
        }
    }

    /// Runs subject code for the current case; an unwinding panic is a
    /// violation under `key` unless `panic_ok`.
    pub fn call<T>(&mut self, key: &str, panic_ok: bool, f: impl FnOnce() -> T) -> Option<T> {
        match guard(f) {
            Outcome::Ret(t) => Some(t),
            Outcome::Panic(m) => {
                if !panic_ok {
                    self.violation(key, format!("panic on in-domain input: {m}"));
                }
                None
            }
        }
    }

    pub fn finish(&mut self) {
        CUR_CASE.store(u64::MAX, Ordering::SeqCst);
        let mut o = String::new();
        let _ = write!(
            o,
            "{{\"evaluations\":{},\"nontrivial\":{},\"cases_total\":{},\"states\":{},\"transitions\":{},\"exhaustive\":{},\"wall_s\":{:.3},",
            self.evaluations + self.sub_evaluations,
            self.nontrivial.len() as u64 + self.nontrivial_extra,
            self.next_idx,
            self.states,
            self.transitions,
            self.exhaustive,
            self.started.elapsed().as_secs_f64()
        );
        o.push_str("\"caps\":[");
        o.push_str(&self.caps.iter().map(|c| json_str(c)).collect::<Vec<_>>().join(","));
        o.push_str("],\"counters\":{");
        o.push_str(&self.counters.iter().map(|(k, v)| format!("{}:{}", json_str(k), v)).collect::<Vec<_>>().join(","));
        o.push_str("},\"outcomes\":[");
        o.push_str(&self.outcomes.iter().take(4096).map(|h| format!("\"{h:x}\"")).collect::<Vec<_>>().join(","));
        o.push_str("],\"samples\":[");
        o.push_str(&self.samples.iter().map(|c| json_str(c)).collect::<Vec<_>>().join(","));
        o.push_str("],\"violations\":[");
        let mut first = true;
        for (k, v) in &self.violations {
            if !first {
                o.push(',');
            }
            first = false;
            let _ = write!(o, "{{\"key\":{},\"count\":{},\"examples\":[", json_str(k), v.count);
            o.push_str(
                &v.examples
                    .iter()
                    .map(|(i, d, w)| format!("{{\"case\":{},\"desc\":{},\"what\":{}}}", i, json_str(d), json_str(w)))
                    .collect::<Vec<_>>()
                    .join(","),
            );
            o.push_str("]}");
        }
        o.push_str("]}\n");
        match &self.out {
            Some(p) => std::fs::write(p, o).expect("cannot write result file"),
            None => print!("{o}"),
        }
    }
}

/// FNV-1a over bytes: deterministic hash for outcome / state accounting.
pub fn fnv(data: &[u8]) -> u64 {
    let mut h = 0xcbf29ce484222325u64;
    for &b in data {
        h ^= b as u64;
        h = h.wrapping_mul(0x100000001b3);
    }
    h
}

pub fn fnv_words(data: impl IntoIterator<Item = u64>) -> u64 {
    let mut h = 0xcbf29ce484222325u64;
    for w in data {
        for b in w.to_le_bytes() {
            h ^= b as u64;
            h = h.wrapping_mul(0x100000001b3);
        }
    }
    h
}

/// Deterministic mixing function used to produce aperiodic test contents.
pub fn mix(mut x: u64) -> u64 {
    x = x.wrapping_add(0x9E3779B97F4A7C15);
    x = (x ^ (x >> 30)).wrapping_mul(0xBF58476D1CE4E5B9);
    x = (x ^ (x >> 27)).wrapping_mul(0x94D049BB133111EB);
    x ^ (x >> 31)
}

//! E2 — explicit-state breadth-first search over operation histories, executed
//! on the real objects. States are deduplicated on a canonical key; parent
//! pointers give the shortest history reaching each state.
use crate::rt::{Ctx, AUX1, AUX2};
use std::collections::HashMap;
use std::fmt::Debug;
use std::hash::Hash;
use std::sync::atomic::Ordering;

pub type Viol = (String, String); // (finding key, what)

struct Node<S, O> {
    st: S,
    parent: usize,
    op: Option<O>,
    depth: u32,
}

fn path<S, O: Debug>(nodes: &[Node<S, O>], mut i: usize, last: Option<&O>) -> String {
    let mut ops = vec![];
    while let Some(op) = &nodes[i].op {
        ops.push(format!("{op:?}"));
        i = nodes[i].parent;
    }
    ops.reverse();
    if let Some(l) = last {
        ops.push(format!("{l:?}"));
    }
    format!("history=[{}]", ops.join(", "))
}

/// Explores all histories of at most `depth` operations from `start`.
/// `observe` is evaluated in every distinct state, `step` on every transition.
pub fn bfs<S, K, O>(
    ctx: &mut Ctx,
    start: S,
    depth: u32,
    max_states: usize,
    key: impl Fn(&S) -> K,
    ops: impl Fn(&S) -> Vec<O>,
    mut step: impl FnMut(&S, &O, &mut Vec<Viol>) -> Option<S>,
    mut observe: impl FnMut(&S, &mut Vec<Viol>),
) where
    K: Hash + Eq,
    O: Clone + Debug,
{
    let explain: Option<(u64, u64)> = ctx.opt("explain").and_then(|s| {
        let (a, b) = s.split_once(':')?;
        Some((a.parse().ok()?, b.parse().ok()?))
    });
    let mut seen: HashMap<K, usize> = HashMap::new();
    let mut nodes: Vec<Node<S, O>> = vec![];
    seen.insert(key(&start), 0);
    nodes.push(Node { st: start, parent: 0, op: None, depth: 0 });
    let mut viol: Vec<Viol> = vec![];
    let mut i = 0;
    let mut max_depth = 0;
    while i < nodes.len() {
        AUX1.store(i as u64, Ordering::Relaxed);
        AUX2.store(u64::MAX, Ordering::Relaxed);
        if explain.is_some_and(|e| e.0 == i as u64 && e.1 == u64::MAX) {
            eprintln!("EXPLAIN state {i}: {}", path(&nodes, i, None));
        }
        observe(&nodes[i].st, &mut viol);
        if !viol.is_empty() {
            let p = path(&nodes, i, None);
            for (k, w) in viol.drain(..) {
                ctx.violation(&k, format!("{w}; in state reached by {p}"));
            }
        }
        ctx.states += 1;
        let d = nodes[i].depth;
        max_depth = max_depth.max(d);
        if d < depth {
            let os = ops(&nodes[i].st);
            for (oi, op) in os.iter().enumerate() {
                AUX2.store(oi as u64, Ordering::Relaxed);
                if explain.is_some_and(|e| e.0 == i as u64 && e.1 == oi as u64) {
                    eprintln!("EXPLAIN transition {i}:{oi}: {}", path(&nodes, i, Some(op)));
                }
                let next = step(&nodes[i].st, op, &mut viol);
                ctx.transitions += 1;
                if !viol.is_empty() {
                    let p = path(&nodes, i, Some(op));
                    for (k, w) in viol.drain(..) {
                        ctx.violation(&k, format!("{w}; {p}"));
                    }
                }
                if let Some(n) = next {
                    let k = key(&n);
                    if !seen.contains_key(&k) {
                        if nodes.len() >= max_states {
                            ctx.cap("max_states per BFS unit reached");
                            continue;
                        }
                        seen.insert(k, nodes.len());
                        nodes.push(Node { st: n, parent: i, op: Some(op.clone()), depth: d + 1 });
                    }
                }
            }
        }
        if i % 4096 == 0 {
            ctx.heartbeat();
        }
        i += 1;
    }
    ctx.add("bfs_units", 1);
    let c = ctx.counters.entry("max_depth".to_string()).or_insert(0);
    *c = (*c).max(max_depth as u64);
}

//! E3 — controlled scheduler for real OS threads running real library code.
//!
//! Every thread blocks at `start` and at each scheduling point (the add-only
//! `verif_hooks::point` calls placed before every atomic memory operation); a
//! controller grants the token to exactly one thread at a time, so an
//! execution is a sequentially consistent interleaving at the granularity of
//! atomic operations. Exploration is stateless depth-first search by
//! re-execution with prefix replay and iterative preemption bounding (CHESS):
//! the default choice keeps the running thread; switching away from a thread
//! that is still enabled costs one preemption.
use std::cell::Cell;
use std::sync::{Arc, Condvar, Mutex};

#[derive(Clone, Copy, PartialEq, Debug)]
enum Status {
    NotStarted,
    Waiting(&'static str, usize),
    Running,
    Finished,
}

struct St {
    status: Vec<Status>,
    turn: Option<usize>,
}

struct Ctl {
    m: Mutex<St>,
    cv: Condvar,
}

thread_local! {
    static TID: Cell<Option<(usize, *const Ctl)>> = const { Cell::new(None) };
}

/// The callback installed with `sux::verif_hooks::set_point_hook`.
pub fn hook(site: &'static str, word: usize) {
    if let Some((tid, ctl)) = TID.with(|t| t.get()) {
        // SAFETY: the controller outlives the scoped threads that hold this pointer
        unsafe { &*ctl }.yield_point(tid, site, word);
    }
}

impl Ctl {
    fn yield_point(&self, tid: usize, site: &'static str, word: usize) {
        let mut g = self.m.lock().unwrap();
        g.status[tid] = Status::Waiting(site, word);
        g.turn = None;
        self.cv.notify_all();
        while g.turn != Some(tid) {
            g = self.cv.wait(g).unwrap();
        }
        g.status[tid] = Status::Running;
    }
    fn finish(&self, tid: usize) {
        let mut g = self.m.lock().unwrap();
        g.status[tid] = Status::Finished;
        g.turn = None;
        self.cv.notify_all();
    }
}

#[derive(Clone, Debug)]
pub struct Decision {
    /// enabled threads in canonical order: the last running thread first (if enabled), then ascending ids
    pub enabled: Vec<usize>,
    /// index into `enabled`
    pub chosen: usize,
    pub last: Option<usize>,
    pub site: &'static str,
    pub word: usize,
}

pub const HORIZON: usize = 10_000;

/// Runs one execution following `prefix` (then the default choice 0). Returns
/// the decision trace, the per-thread results and whether the horizon was hit.
pub fn run_once<S: Sync, R: Send>(n: usize, shared: &S, body: &(dyn Fn(&S, usize) -> R + Sync), prefix: &[usize]) -> Result<(Vec<Decision>, Vec<R>), String> {
    let ctl = Arc::new(Ctl { m: Mutex::new(St { status: vec![Status::NotStarted; n], turn: None }), cv: Condvar::new() });
    let mut trace: Vec<Decision> = vec![];
    let mut results: Vec<Option<R>> = (0..n).map(|_| None).collect();
    let mut err = None;
    std::thread::scope(|s| {
        let mut handles = vec![];
        for tid in 0..n {
            let ctl = ctl.clone();
            handles.push(s.spawn(move || {
                TID.with(|t| t.set(Some((tid, Arc::as_ptr(&ctl)))));
                ctl.yield_point(tid, "start", 0);
                let r = std::panic::catch_unwind(std::panic::AssertUnwindSafe(|| body(shared, tid)));
                TID.with(|t| t.set(None));
                ctl.finish(tid);
                r
            }));
        }
        let mut last: Option<usize> = None;
        let mut step = 0;
        loop {
            let mut g = ctl.m.lock().unwrap();
            while !(g.turn.is_none() && g.status.iter().all(|s| matches!(s, Status::Waiting(..) | Status::Finished))) {
                g = ctl.cv.wait(g).unwrap();
            }
            let mut enabled: Vec<usize> = (0..n).filter(|&t| matches!(g.status[t], Status::Waiting(..))).collect();
            if enabled.is_empty() {
                break;
            }
            if let Some(l) = last {
                if let Some(p) = enabled.iter().position(|&x| x == l) {
                    enabled.remove(p);
                    enabled.insert(0, l);
                }
            }
            let idx = if step < prefix.len() {
                if prefix[step] >= enabled.len() {
                    err = Some(format!("divergence while replaying a prefix: choice {} of {} enabled threads at step {step}", prefix[step], enabled.len()));
                    0
                } else {
                    prefix[step]
                }
            } else {
                0
            };
            if step >= HORIZON && err.is_none() {
                err = Some(format!("horizon of {HORIZON} scheduling points exceeded (livelock?)"));
            }
            let chosen = enabled[idx];
            let (site, word) = if let Status::Waiting(s, w) = g.status[chosen] { (s, w) } else { unreachable!() };
            trace.push(Decision { enabled: enabled.clone(), chosen: idx, last, site, word });
            g.turn = Some(chosen);
            last = Some(chosen);
            step += 1;
            ctl.cv.notify_all();
        }
        for (tid, h) in handles.into_iter().enumerate() {
            match h.join().unwrap() {
                Ok(r) => results[tid] = Some(r),
                Err(_) => err = Some(format!("thread {tid} panicked")),
            }
        }
    });
    if let Some(e) = err {
        return Err(e);
    }
    Ok((trace, results.into_iter().map(|r| r.unwrap()).collect()))
}

#[derive(Default, Debug, Clone)]
pub struct ExploreStats {
    pub executions: u64,
    pub points: u64,
    pub executions_with_cas_retry: u64,
    pub max_points: u64,
}

pub fn schedule_of(tr: &[Decision]) -> Vec<usize> {
    tr.iter().map(|d| d.enabled[d.chosen]).collect()
}

/// Explores all schedules with at most `bound` preemptions. `fresh` creates the
/// shared state of one execution; `check` returns a violation description.
pub fn explore<S: Sync, R: Send>(
    n: usize,
    bound: usize,
    fresh: &dyn Fn() -> S,
    body: &(dyn Fn(&S, usize) -> R + Sync),
    check: &mut dyn FnMut(&S, &[R], &[Decision]) -> Option<String>,
    stats: &mut ExploreStats,
    max_execs: u64,
) -> Result<Option<(String, Vec<usize>)>, String> {
    let mut stack: Vec<Vec<usize>> = vec![vec![]];
    while let Some(prefix) = stack.pop() {
        if stats.executions >= max_execs {
            return Err("execution cap reached".into());
        }
        let shared = fresh();
        let (tr, res) = run_once(n, &shared, body, &prefix)?;
        stats.executions += 1;
        stats.points += tr.len() as u64;
        stats.max_points = stats.max_points.max(tr.len() as u64);
        // a compare-exchange executed more than once by the same thread on the same word in a row = retry
        let mut retry = false;
        let mut last_cas: Vec<Option<usize>> = vec![None; n];
        for d in &tr {
            let t = d.enabled[d.chosen];
            if d.site == "cas" {
                if last_cas[t] == Some(d.word) {
                    retry = true;
                }
                last_cas[t] = Some(d.word);
            } else {
                last_cas[t] = None;
            }
        }
        if retry {
            stats.executions_with_cas_retry += 1;
        }
        if let Some(v) = check(&shared, &res, &tr) {
            // replay twice: the same schedule must give the same verdict
            let sched: Vec<usize> = tr.iter().map(|d| d.chosen).collect();
            for _ in 0..2 {
                let s2 = fresh();
                let (tr2, res2) = run_once(n, &s2, body, &sched)?;
                if schedule_of(&tr2) != schedule_of(&tr) || check(&s2, &res2, &tr2).is_none() {
                    return Err(format!("non-deterministic replay of a failing schedule {:?}", schedule_of(&tr)));
                }
            }
            return Ok(Some((v, schedule_of(&tr))));
        }
        let mut pre = 0usize;
        let mut costs = vec![];
        for d in tr.iter() {
            costs.push(pre);
            if let Some(l) = d.last {
                if d.enabled[0] == l && d.chosen != 0 {
                    pre += 1;
                }
            }
        }
        for i in (prefix.len()..tr.len()).rev() {
            let d = &tr[i];
            let running_enabled = d.last.is_some_and(|l| d.enabled[0] == l);
            for alt in 1..d.enabled.len() {
                let cost = costs[i] + usize::from(running_enabled);
                if cost > bound {
                    continue;
                }
                let mut p: Vec<usize> = tr[..i].iter().map(|x| x.chosen).collect();
                p.push(alt);
                stack.push(p);
            }
        }
    }
    Ok(None)
}

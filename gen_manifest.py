#!/usr/bin/env python3
"""Regenerates MANIFEST.json from props.py (run after editing props.py)."""
import json, os, subprocess, sys
ROOT = os.path.dirname(os.path.abspath(__file__))
sys.path.insert(0, ROOT)
from props import PROPS, NOT_APPLICABLE, LEVEL_TEXT, LEVEL_NOTE, TECHNIQUE, DESIGN_REF

ids = [json.loads(l)["id"] for l in open(os.path.join(ROOT, "properties.jsonl"))]
hooks = subprocess.run(["git", "-C", "/repo", "log", "--format=%H %s"], stdout=subprocess.PIPE, text=True).stdout.splitlines()
hook_commits = [l.split()[0] for l in hooks if l.split(" ", 1)[1].startswith("verif hooks:")]
engines = {
    "E1": ("harness/src/bin/e1_*.rs", "bounded-exhaustive enumeration of inputs x configurations on the real API against reference models"),
    "E2": ("harness/src/bin/e2_hist.rs", "explicit-state BFS over operation histories on the real objects, dedup on canonical state key"),
    "E3": ("harness/src/bin/e3_sched.rs", "controlled-scheduler stateless exploration of real threads (token passing at hooked atomic operations, iterative preemption bounding)"),
    "E4": ("harness/src/bin/e4_fault.rs", "exhaustive fault-position enumeration with fault-injecting lenders"),
    "E5": ("harness/src/bin/e5_proto.rs", "explicit-state search of a Rust model of VBuilder::par_solve + replay of real event traces through the model"),
}
checks = []
for pid in ids:
    if pid not in PROPS:
        continue
    s = PROPS[pid]
    checks.append({
        "property_id": pid,
        "quick_cmd": f"./check {pid} --tier quick",
        "thorough_cmd": f"./check {pid} --tier thorough",
        "evidence_file": f"/verif/evidence/{pid}.json",
        "replay_cmd_template": f"./check {pid} --replay {{path}}",
        "engine": s["engine"],
        "level_claimed": {"category": s["level"], "text": LEVEL_TEXT[pid], "design_ref": DESIGN_REF.get(pid, f"DESIGN.md §5 {pid}")},
        "level_note": LEVEL_NOTE.get(pid, LEVEL_NOTE["*"]),
        "technique": TECHNIQUE[pid],
    })
man = {
    "version": 1,
    "setup_cmd": "./check --setup",
    "hooks": {
        "guard": "--cfg sux_verif",
        "enable": "RUSTFLAGS-equivalent in /verif/harness/.cargo/config.toml: build.rustflags = [\"--cfg\", \"sux_verif\", \"-C\", \"target-cpu=native\"]; the harness crate depends on sux by path (/repo) so every check rebuilds from the working tree",
        "baseline_off_cmd": "cd /repo && cargo nextest run --workspace --no-fail-fast --tool-config-file pb:/w/lib/nextest.toml --profile pb --test-threads 8 --offline || (cd /repo && cargo test --workspace --no-fail-fast --offline)",
        "source_commits": hook_commits,
        "add_only": True,
    },
    "engines": [{"name": k, "path": v[0], "serves_properties": [p for p in ids if p in PROPS and k in PROPS[p]["engine"].split("+")], "kind_free_text": v[1]} for k, v in engines.items()],
    "checks": checks,
    "not_applicable": [{"property_id": p, "reason": NOT_APPLICABLE.get(p, "check not built yet (work in progress)")} for p in ids if p not in PROPS],
    "notes": "All checks are driven by /verif/check (python3, stdlib only). Known findings: /verif/known_findings.json. See DESIGN.md.",
}
json.dump(man, open(os.path.join(ROOT, "MANIFEST.json"), "w"), indent=1)
print("checks:", len(checks), "not_applicable:", len(man["not_applicable"]))

import sys
pid = sys.argv[1]
prop = open(f'/tmp/prop_{pid}.txt').read()
d = f'/tmp/seed_{pid}'
print(f"""You are helping to evaluate a verification harness by producing one *seeded defect*.

The directory {d} is a scratch git worktree of the Rust crate `sux` (succinct data structures: bit vectors, rank/select, Elias-Fano, rear-coded lists, static functions/filters). Work ONLY inside {d}. Never read or touch /verif or /repo. There is no network: always pass `--offline` to cargo, and use `CARGO_TARGET_DIR={d}/target` and `-j 6`.

Property that your change must break:

{prop}
Task: make ONE small, realistic change to the library source under {d}/src that BREAKS this property, while the crate still compiles and the *existing* test suite still passes unchanged. The change must look like a plausible regression a maintainer could introduce (an off-by-one at a word/block boundary, a wrong mask or shift, a dropped special case, a mis-ordered pair of statements, a wrong threshold, a stale cursor, a check moved after the action it guards, ...), not blatant sabotage. It must need something SPECIFIC to manifest: a particular input shape/size/parameter value, a multi-step sequence of operations, a particular thread interleaving or fault position, or two cooperating sites that each look fine alone — not something that ordinary use would expose at once. Do not edit tests, benches or examples; do not remove or alter the lines guarded by `#[cfg(sux_verif)]` (verification hooks) — leave them exactly as they are, even if you edit code next to them.

Steps:
1. Read the relevant code and pick the change. Prefer a subtle one that the existing tests (tests/*.rs and the unit tests in src) do not exercise.
2. Apply it. Run the whole existing suite: `cd {d} && CARGO_TARGET_DIR={d}/target cargo test --offline -j 6 2>&1 | grep -E "^test result|FAILED|panicked|error"` (this takes a few minutes the first time). EVERY test must still pass. If one fails, choose a different change.
3. Write a demonstration as an integration test file {d}/tests/seed_demo.rs that uses only the public API, FAILS with your change and PASSES on the original code. Verify both: run it with your change (must fail); then save your change with `git -C {d} diff -- src > {d}/my_change.diff` and remove it with `git -C {d} checkout -- src`, run the demo again (must pass), then restore the change with `git -C {d} apply {d}/my_change.diff`. Do NOT use `git stash`: the stash is shared with other worktrees of the same repository that other people are using at the same time.
4. Create the directory {d}/seed and write into it: `patch.diff` = output of `git -C {d} diff -- src` (only the library change, not the demo); `demo.rs` = a copy of tests/seed_demo.rs; `meta.json` with the keys: "property" ("{pid}"), "summary" (what was changed and why it breaks the property), "needs" (the specific condition required for it to manifest), "files" (list), "demo_cmd", "how_verified" (what you ran and what you observed, including that the full existing suite passed with the change).
5. Reply with a short summary (5-10 lines): the change, what it needs to manifest, and the verification results.
""")

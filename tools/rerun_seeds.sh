#!/bin/bash
# Re-runs every kept seed against the current quick check of its property (C03-b: C13, see DESIGN.md §7).
cd "$(dirname "$0")/.."
for d in seeded/C*; do
  s=$(basename $d); p=${s%%-*}
  if [ "$s" = "C03-b" ]; then p=C13; fi
  ./seedtool.py run $s $p 2>&1 | grep -v conda
done

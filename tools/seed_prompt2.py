import sys, json, subprocess
pid = sys.argv[1]
suffix = sys.argv[2] if len(sys.argv) > 2 else "b"
prev = []
import glob
for f in sorted(glob.glob(f'/verif/seeded/{pid}-*/meta.json')):
    m = json.load(open(f))
    prev.append("- " + str(m.get('summary', ''))[:600].replace("\n", " "))
base = subprocess.run(['python3', '/verif/tools/seed_prompt.py', pid], stdout=subprocess.PIPE, text=True).stdout
base = base.replace(f'/tmp/seed_{pid}', f'/tmp/seed_{pid}{suffix}')
extra = "\nIMPORTANT — earlier seeded defects for this property already exist; yours must be in a DIFFERENT function or mechanism and need a DIFFERENT kind of condition to manifest (do not re-use or vary these):\n" + "\n".join(prev) + "\nAim for a defect that is harder to stumble upon: e.g. it needs a particular combination of two parameters, an input of a particular size class, a sequence of three or more operations, a rarely taken branch (retry path, spill/overflow path, last-block or last-word handling, a non-default type parameter), or an interaction between two methods.\n"
print(base.replace("Steps:\n", extra + "\nSteps:\n", 1))

#!/usr/bin/env python3
"""Prints the 'measured on the unchanged tree' table of DESIGN.md §0 from evidence/*.json."""
import glob, json, os, sys

sys.path.insert(0, os.path.join(os.path.dirname(os.path.abspath(__file__)), ".."))
import props  # noqa: E402

root = os.path.join(os.path.dirname(os.path.abspath(__file__)), "..")
print("| id | engine | tier | cases (distinct non-trivial) | states / transitions | wall |")
print("|---|---|---|---|---|---|")
for f in sorted(glob.glob(os.path.join(root, "evidence", "C*.json"))):
    d = json.load(open(f))
    c = d["coverage"]
    st = f"{c['states']:,} / {c['transitions']:,}".replace(",", " ") if c.get("states") else "—"
    print(f"| {d['property_id']} | {props.PROPS[d['property_id']]['engine']} | {d['tier']} | {c['evaluations']:,} ({c['distinct_nontrivial']:,}) | {st} | {d['wall_s']:.0f} s |".replace(",", " "))

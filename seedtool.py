#!/usr/bin/env python3
"""Handling of seeded defects (independently written property-breaking changes).

  seedtool.py verify <worktree> <name>
      confirm, in the scratch worktree the change was written in, that (1) the crate compiles and
      the repository's own test suite passes with the change, (2) the demonstration fails with the
      change and (3) passes without it; then store patch.diff / demo.rs / meta.json under
      /verif/seeded/<name>/.
  seedtool.py run <name> <Cxx> [<Cyy> ...]
      apply /verif/seeded/<name>/patch.diff to /repo, run the quick checks of the given properties,
      record exit codes and violation keys in /verif/seeded/<name>/results.json, and revert /repo.
"""
import json, os, re, shutil, subprocess, sys, time

ENV = dict(os.environ, CARGO_NET_OFFLINE="true")
# roots: this file's directory and the repository its `repo` symlink points to (so that a scratch copy of
# both can be used for long re-runs without touching /repo)
VERIF = os.path.dirname(os.path.realpath(__file__))
REPO = os.path.realpath(os.path.join(VERIF, "repo"))


def sh(cmd, cwd=None, timeout=3600):
    p = subprocess.run(cmd, shell=True, cwd=cwd, env=ENV, stdout=subprocess.PIPE, stderr=subprocess.STDOUT, text=True, timeout=timeout)
    return p.returncode, p.stdout


def summarize_tests(out):
    ok = failed = 0
    for m in re.finditer(r"test result: (\w+)\. (\d+) passed; (\d+) failed", out):
        ok += int(m.group(2))
        failed += int(m.group(3))
    return ok, failed


def verify(wt, name):
    dest = f"{VERIF}/seeded/{name}"
    os.makedirs(dest, exist_ok=True)
    seed = os.path.join(wt, "seed")
    meta = json.load(open(os.path.join(seed, "meta.json")))
    tgt = f"CARGO_TARGET_DIR={wt}/target"
    demo = os.path.join(wt, "tests", "seed_demo.rs")
    if not os.path.exists(demo):
        shutil.copy(os.path.join(seed, "demo.rs"), demo)
    # the patch on disk must be the one in the worktree
    rc, diff = sh("git diff -- src", cwd=wt)
    open(os.path.join(dest, "patch.diff"), "w").write(diff)
    # (1) repository suite with the change, demonstration moved aside
    os.rename(demo, demo + ".aside")
    t0 = time.time()
    rc1, out1 = sh(f"{tgt} cargo test --offline -j 12 --no-fail-fast 2>&1", cwd=wt, timeout=3000)
    os.rename(demo + ".aside", demo)
    ok1, failed1 = summarize_tests(out1)
    # (2) demonstration with the change
    rc2, out2 = sh(f"{tgt} cargo test --offline -j 12 --test seed_demo 2>&1", cwd=wt)
    ok2, failed2 = summarize_tests(out2)
    # (3) demonstration without the change
    # (no git stash: the stash is shared by all worktrees of /repo)
    sh("git checkout -- src", cwd=wt)
    rc3, out3 = sh(f"{tgt} cargo test --offline -j 12 --test seed_demo 2>&1", cwd=wt)
    ok3, failed3 = summarize_tests(out3)
    sh(f"git apply {os.path.join(dest, 'patch.diff')}", cwd=wt)
    verdict = dict(
        suite_with_change=dict(rc=rc1, passed=ok1, failed=failed1, wall_s=round(time.time() - t0)),
        demo_with_change=dict(rc=rc2, passed=ok2, failed=failed2),
        demo_without_change=dict(rc=rc3, passed=ok3, failed=failed3),
    )
    aborted2 = "SIGABRT" in out2 or "signal: 6" in out2 or "SIGSEGV" in out2  # a memory-safety abort kills the test process: no result line
    verdict["demo_with_change"]["aborted"] = aborted2
    good = rc1 == 0 and failed1 == 0 and ok1 >= 150 and rc2 != 0 and (failed2 >= 1 or aborted2) and rc3 == 0 and failed3 == 0 and ok3 >= 1
    meta["confirmed_by_me"] = verdict
    meta["confirmed"] = good
    meta["what_i_ran"] = "in the scratch worktree: cargo test --offline --no-fail-fast with the change (demo moved aside); cargo test --test seed_demo with the change (must fail); git checkout -- src; same (must pass); git apply patch.diff"
    shutil.copy(demo, os.path.join(dest, "demo.rs"))
    json.dump(meta, open(os.path.join(dest, "meta.json"), "w"), indent=1)
    print(name, "CONFIRMED" if good else "NOT CONFIRMED", json.dumps(verdict))
    if not good:
        print(out1[-1500:] if rc1 else "", out2[-800:], out3[-800:])
    return good


def run(name, props):
    dest = f"{VERIF}/seeded/{name}"
    patch = os.path.join(dest, "patch.diff")
    rc, out = sh("git status --porcelain", cwd=REPO)
    if out.strip():
        print(f"refusing: {REPO} has uncommitted changes:\n" + out)
        return 2
    rc, out = sh(f"git apply --3way {patch} || git apply {patch}", cwd=REPO)
    if rc != 0:
        print("patch does not apply:", out)
        sh("git reset -q --hard HEAD", cwd=REPO)
        return 2
    results = {}
    saved = {}
    for p in props:  # evidence files must describe runs on the unchanged tree: keep and restore them
        ep = f"{VERIF}/evidence/{p}.json"
        if os.path.exists(ep):
            saved[ep] = open(ep).read()
    try:
        for p in props:
            t0 = time.time()
            rc, out = sh(f"./check {p} --tier quick", cwd=VERIF, timeout=3000)
            keys = re.findall(r"^violation key=(\S+)", out, re.M)
            results[p] = dict(exit=rc, violation_keys=keys[:10], wall_s=round(time.time() - t0), tail=out.strip().splitlines()[-1] if out.strip() else "")
            print(f"  {name} {p}: exit={rc} keys={keys[:4]}")
    finally:
        sh("git reset -q --hard HEAD", cwd=REPO)
        for ep, txt in saved.items():
            open(ep, "w").write(txt)
    old = {}
    rp = os.path.join(dest, "results.json")
    if os.path.exists(rp):
        old = json.load(open(rp))
    old.update(results)
    json.dump(old, open(rp, "w"), indent=1)
    rc, out = sh("git status --porcelain", cwd=REPO)
    assert not out.strip(), out
    return 0


if __name__ == "__main__":
    if sys.argv[1] == "verify":
        sys.exit(0 if verify(sys.argv[2], sys.argv[3]) else 1)
    elif sys.argv[1] == "run":
        sys.exit(run(sys.argv[2], sys.argv[3:]))

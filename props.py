"""Per-property configuration of the supervisor: which engine binaries decide a
property, at what level, with which alphabet / bound / oracle (these strings go
verbatim into the evidence files)."""

STRICT = ["strict profile: opt-level 2 + debug assertions + overflow checks + std UB checks (out-of-range get_unchecked aborts)",
          "x86-64 little endian, target-cpu=native, sux built with --cfg sux_verif (add-only hooks) and feature mwhc"]

PROPS = {}

PROPS["C19"] = dict(
    level="exploration",
    engine="E1",
    parts=[dict(bin="e1_gf2")],
    rule="every system with v variables and <= e equations, each equation any non-empty strictly increasing variable list with any c-bit constant (ordered tuples of equations, so repeated/dependent/contradictory rows all occur); a system is non-trivial when it has >= 2 equations; each system is enumerated exactly once; plus systems of 2-3 VERY WIDE equations (all pairs of widths from {1,2,3,254..258,300,511..513,1000,65536,65537}, four overlap patterns, all 16 constant pairs, four choices of a third equation) decided by an independent bitset Gaussian elimination - counters of the lazy solver must not be narrower than an equation",
    alphabet="(v,e,c) spaces; both solvers; W in {usize,u8}",
    bound={"quick": "(v<=e_max,c): (1,4,2) (2,4,2) (3,4,2) (4,3,2) (4,4,1) (5,3,1) (4,4,2) (6,3,1); u8 for v<=4,e<=3",
           "thorough": "quick + (3,5,2) (5,4,1) (4,5,1) (5,4,2) (7,3,1) (6,4,1) (8,3,1)"},
    oracle="brute force over all 2^v assignments per bit-plane decides solvability; Ok(s) => solvable and s satisfies every equation (own evaluation and Modulo2System::check); Err => unsolvable; any panic is a violation",
    assumptions=STRICT,
)

# ---------------------------------------------------------------------------
# MANIFEST texts
NOT_APPLICABLE = {}
LEVEL_NOTE = {"*": "Trusted base: rustc/cargo, the harness reference models (plain Vec/HashMap code), the supervisor. Bounded: holds for the enumerated space only (alphabets and bounds are in the evidence file)."}
DESIGN_REF = {}
LEVEL_TEXT = {}
TECHNIQUE = {}
LEVEL_TEXT["C19"] = "Exhaustive enumeration of every GF(2) system in stated (variables, equations, constant bits) spaces, both solvers, against brute-force solvability; small-scope exhaustive, which is the right level because the solvers' branches (pivot choice, dependent/contradictory rows, lazy peeling of light/heavy variables) are all reached by systems of <= 6 variables."
TECHNIQUE["C19"] = "bounded-exhaustive enumeration of all inputs up to a size bound against a brute-force reference model"

PROPS["C16"] = dict(
    level="exploration",
    engine="E1",
    parts=[dict(bin="e1_shard_edge")],
    rule="case = (ShardEdge impl, n, eps, max_shard choice) set-up through set_up_shards+set_up_graphs; inside each case the cross product of extreme values of both signature words (0,1,2^32+-1,2^63,MAX-1,MAX, alternating, every 2^j, ~2^j, 2^j-1: 190 values per word) is evaluated, plus first words at the steps of the fixed-point inversions (within -2..=shards+2 of k 2^64/M and k 2^32/M for every cell count M of the public geometry and k in {1,2,3,M/2,M-2,M-1}, pulled back through every shift/rotation by 0, shard bits, shard bits + 1) x 6 second words; a case is non-trivial when the set-up succeeded and is not a duplicate of another max_shard choice",
    alphabet="7 ShardEdge impls (FuseLge3Shards, FuseLge3NoShards x [u64;2]/[u64;1], FuseLge3FullSigs, Mwhc3Shards, Mwhc3NoShards); eps in {0.001,0.01,0.1}; max_shard in {ceil(n/s), floor(1.01 n/s)} (n when s=1)",
    bound={"quick": "every n in 0..=2500, powers of 2 and 10 +-1 to 10^12, 50000 j +-1, values just below each shard-count switch, 12% geometric grid to 10^12; signature grid thinned 1/3 above n=2500 and 1/5 above 10^6",
           "thorough": "every n in 0..=60000, same boundaries, 1% geometric grid to 10^12"},
    oracle="edge(sig) pairwise distinct; < num_vertices*num_shards; inside [shard*nv,(shard+1)*nv); == local_edge(local_sig(sig)) + shard*nv; sort_key < num_sort_keys; shard(sig) == Sig::high_bits(shard_high_bits) (the signature store's function); set-up panics other than the documented too-many-vertices assertion are violations",
    assumptions=STRICT,
)
LEVEL_TEXT["C16"] = "Exhaustive enumeration of graph set-ups over a dense grid of key counts (every small n, every regime boundary, geometric grid to 10^12) times a cross product of extreme signature words, checking the six arithmetic relations of the property on each; the edge computation is pure integer arithmetic whose only branches depend on n-regime and on field extremes, which the grids hit."
TECHNIQUE["C16"] = "bounded-exhaustive enumeration of configurations x boundary-value signature grid against the arithmetic specification"

MC_NOTE = "E2: each transition applies the operation to the real object (rebuilt from the state's raw parts) and to the model; so every model transition is validated against the implementation and traces_validated_against_impl = transitions. States are deduplicated per BFS unit (seed x first operation) on (backing words incl. stale bits, len, width, capacity of the backing Vec); 'states' sums the per-unit distinct states."

PROPS["C06"] = dict(
    level="model_checking",
    engine="E2",
    parts=[dict(bin="e2_bitvec", opts={"prop": "C06"}, tag="clean"),
           dict(bin="e1_huge", opts={"prop": "C06"}, shards=3, tag="huge-all-ones")],
    rule="(plus three all-ones vectors of 2^32+1 / +200 / +192 bits, plain and atomic, counted before and after clearing two bits: counters that must hold 2^32 ones) BFS over operation histories from clean seeds; unit = (seed, first operation); a unit is non-trivial when its start state has a partially used last word or spare words",
    alphabet="push(b) pop set(i,b) i in {0,1,62,63,64,65,127,len/2,len-1} resize(n,b) n in {0,1,63,64,65,129} fill flip reset par_fill par_flip par_reset extend([1,0,1]) to_owned; set through Box, &mut [usize], AtomicBitVec (Vec and Box) set/swap, atomic fill/flip/reset and par_ variants; seeds new/with_value/with_capacity/collect/bit_vec! forms at lengths {0,1,63,64,65,128}",
    bound={"quick": "all histories of <= 4 operations from every seed", "thorough": "all histories of <= 6 operations, lengths also 2,127,129"},
    oracle="in every state: In seed states the iterators are also driven through the rest of the Iterator protocol (size_hint at every step, polling after the end, nth(k) / nth twice / skip(k).count() for k around the length and usize::MAX, step_by, count, last) against the slice iterator over the model; len, get, Index, iter, (&b).into_iter, iter_ones, iter_zeros, count_ones/zeros, par_count_ones, ==/!= against fresh equal / one-bit-different / different-only-beyond-len / longer vectors, to_owned, AtomicBitVec get/Index/count_ones/par_count_ones/iter, slice-backed reads equal the Vec<bool> model; get/Index/set and atomic get/set/swap/Index at len, len+1, MAX panic and leave the storage unchanged; on every transition: return values equal the model's and storage bits outside the written elements are unchanged",
    assumptions=STRICT + ["state key = (backing words, len); Vec capacity is the only hidden field and is not observable through the API except via contents"],
    mc_note=MC_NOTE,
)
LEVEL_TEXT["C06"] = "Explicit-state model checking of the real BitVec against Vec<bool>: every history up to the depth bound over a boundary alphabet is executed on the implementation, all observations compared in every reached state. Bounded exhaustive over histories is the right level: the defects at stake are word-boundary and stale-bit interactions between a few consecutive operations."
TECHNIQUE["C06"] = "explicit-state BFS over operation histories executed on the real object, observational equivalence with a reference model in every state"

PROPS["C14"] = dict(
    level="model_checking",
    engine="E2",
    parts=[dict(bin="e2_bitvec", opts={"prop": "C14", "depth": 3}, tag="dirty-q", tiers=["quick"]),
           dict(bin="e2_bitvec", opts={"prop": "C14", "depth": 5}, tag="dirty-t", tiers=["thorough"]),
           dict(bin="e2_bfv", opts={"prop": "C14", "depth": 3, "words": "u8,usize"}, tag="dirty-q", tiers=["quick"]),
           dict(bin="e2_bfv", opts={"prop": "C14", "depth": 4, "words": "u8,usize"}, tag="dirty-t", tiers=["thorough"]),
           dict(bin="e2_bfv", opts={"prop": "C14", "depth": 3, "words": "u16,u32,u64,u128"}, tag="dirty-t-other-words", tiers=["thorough"]),
           # copy into dirty storage, chunked writes and apply_in_place on dirty backends (the C10 engine, relabelled)
           dict(bin="e1_bulk", opts={"relabel": "C10:C14"}, tag="bulk-writers")],
    rule="BFS over operation histories from dirty from_raw_parts seeds (garbage beyond len: all ones / alternating / single 1 right after the last valid bit / garbage only in spare words; 0-2 spare words); unit = (seed, first operation)",
    alphabet="same operation alphabet as C06/C05, started from dirty storage",
    bound={"quick": "all histories of <= 3 operations from every dirty seed (bit-field vectors: word types u8 and usize; u16 and the others in the thorough tier)", "thorough": "bit vectors: all histories of <= 5 operations; bit-field vectors: <= 4 operations for u8 and usize (every width class), <= 3 for u16/u32/u64/u128"},
    oracle="readers: every observation of C06/C05 equals the clean model in every state; writers: on every transition the raw words before/after differ only inside the elements the operation is documented to write (growth: the new elements; shrink: the discarded elements); the bulk writers (copy into a destination with a dirty tail and spare word, chunked writes, apply_in_place) are enumerated by the C10 engine with the same raw-word footprint check",
    assumptions=STRICT,
    mc_note=MC_NOTE,
)
LEVEL_TEXT["C14"] = "Explicit-state model checking from dirty seed states: the state key contains the stale bits and spare words, every read observation is compared with the clean model in every reached state and a footprint invariant on raw storage is checked on every transition."
TECHNIQUE["C14"] = "explicit-state BFS from dirty from_raw_parts seeds, read-equivalence in every state and raw-storage footprint invariant on every transition"

PROPS["C05"] = dict(
    level="model_checking",
    engine="E2",
    parts=[dict(bin="e2_bfv", opts={"prop": "C05"}, tag="clean"),
           dict(bin="e2_bfv", opts={"prop": "C05", "words": "u32,u64,u128", "depth": 2}, tag="clean-other-words", tiers=["quick"])],
    rule="BFS over operation histories, one search per (word type, bit width, seed, first operation); a unit is non-trivial when its start state has a partially used last word, spare words, or an element crossing a word boundary",
    alphabet="push(v) pop set(i,v) resize(n,v) clear extend([v,v']) reset par_reset apply_in_place(x+1 & mask); set through Box, &mut [W], AtomicBitFieldVec (Vec and Box); atomic reset/par_reset; values {0,1,top bit,mask>>1,mask,0101..}; indices {0,1,k-1,k,k+1,len-1}, lengths {0,1,k-1,k,k+1,2k+1}, k = first element crossing a word; rejected: set/get at len,len+1,MAX/2, iter_from(len+1), set/push/resize/set_atomic with mask+1 and MAX; seeds new / new+set(pattern) / with_capacity+push / new_unaligned / with_capacity / from_slice",
    bound={"quick": "all histories of <= 3 operations for W in {u8,u16,usize} x 6 widths each (incl. 0 and W::BITS); all histories of <= 2 operations for u32 (10 widths), u64 (16 widths), u128 (7 widths)", "thorough": "all histories of <= 4 operations; u8 and u16 all widths, u32 10 widths, u64/usize 16 widths, u128 7 widths"},
    oracle="in every state: In seed states the iterators are also driven through the rest of the Iterator protocol (size_hint at every step, polling after the end, nth(k) / nth twice / skip(k).count() for k around the length and usize::MAX, step_by, count, last) against the slice iterator over the model; len, bit_width, mask, get(i) all i, iter, into_iter, iter_from(j) all j with exact len()/size_hint before every next, forward unchecked iterator from every j, reverse unchecked iterator from every j, ==/!= against fresh equal / one-element-different / other-width / longer / garbage-beyond-len vectors, from_slice into u128 and u8, boxed and slice-backed reads, atomic reads; rejected operations panic and leave raw parts unchanged; on every transition: return value, callback sequence of apply_in_place, footprint on raw words",
    assumptions=STRICT + ["state key = (backing words, len) per (W, width)"],
    mc_note=MC_NOTE,
)
LEVEL_TEXT["C05"] = "Explicit-state model checking of the real BitFieldVec<W> against Vec<W> for every word type and a boundary set of widths (all widths for u8/u16 in thorough): every history up to the depth bound is executed on the implementation and all observations are compared in every reached state."
TECHNIQUE["C05"] = "explicit-state BFS over operation histories executed on the real object per (word type, bit width), observational equivalence with a reference model in every state"

RS_RULE = "case = (structure stack with parameters, shaped bit vector, tail state); stacks include seven whose backend was replaced with map() after construction; vectors: every length 0..=L x {zeros, ones, alternating, single one / single zero at first/mid/last}, concatenations of <= K segments (kind in zeros/ones/alternating/one-every-7/64/65/512, length in word/block/sub-block boundaries +-1), gap families at the U16/U32 span switch (0xFFFF, 0x10000, 0x10001), sparse vectors of 32768/65536 +- delta bits with <= 3 ones (Select9 span classes, word count mod 4), dense prefixes followed by a very sparse tail (inventory entries with 16/32/64-bit subinventories not starting at 0), their inverses and mirror images, uniformly sparse vectors (one every 2049/4096/8191/70000 bits, 40-300 ones: 32-bit spans, spilling subinventories) with and without a dense block in the middle, vectors with ones at floor(i*g)+offset for average gaps g at the span-class boundaries of Select9 (7.5, 7.75, 8, 63.5, 63.75, 64, 127.5, 127.75, 128, 255.5, 255.75, 256) and of the adaptive selectors (15.5, 16, 16.5, 2047, 2048) with three offsets and inverses, inventory-quantum multiples with ragged tails; tail states fresh / popped / truncated (resize down from +70 ones) / two spare zero words / produced by the whole-vector writers (complement then par_flip; fill, flip and sets); for the rank structures alone also two garbage words after a clean last word (Rank9 documents that the content of an extra word is irrelevant; the selection structures scan the whole backing slice by design, which puts such storage outside C02); a case is non-trivial when the vector has at least one one and one zero"
PROPS["C01"] = dict(
    level="exploration",
    engine="E1",
    parts=[dict(bin="e1_rank_sel", opts={"prop": "C01"}),
           dict(bin="e1_huge", opts={"prop": "C01"}, shards=12, tag="huge")],
    rule=RS_RULE,
    alphabet="Rank9; RankSmall<2,9|1,9|1,10|1,11|3,13>; each under Select9, SelectAdapt, SelectZeroAdapt, SelectAdaptConst, SelectZeroAdaptConst, SelectSmall, SelectZeroSmall in both nesting orders (25 rank-capable stacks)",
    bound={"quick": "L=600, K=1 over 26 lengths, K=2 over 10 lengths x 7 kinds; all p in 0..=len+2 and usize::MAX (boundary set beyond 2200 bits); four sparse vectors longer than 2^32 bits (upper counters of RankSmall, positions beyond 32 bits) and three all-ones vectors of 2^32+1/+192/+200 bits (2^32 ones: counter widths), before and after clearing bits 5 and 2^32-1, probed at the boundary positions; the closed-form dense vectors of C02 under all six rank structures", "thorough": "L=1100, K<=2 over 26 lengths x 7 kinds, K=3 over 9 lengths"},
    oracle="prefix-popcount table of the Vec<bool> model: rank(p) = ones among first min(p,len) bits, rank_zero(p) = p - rank(p) for p <= len, num_ones/num_zeros/count_ones/count_zeros/len and Index equal the model",
    assumptions=STRICT + ["bit vectors with garbage supplied through unsafe from_raw_parts are outside C01/C02 (the property names stale bits left by pop/truncation)"],
)
LEVEL_TEXT["C01"] = "Exhaustive enumeration of a declared space of shaped bit vectors x tail states x every rank-capable structure stack, all positions compared with a prefix-popcount reference. Small-scope exhaustive is the right level: counters are packed per 64/256/512/.../8192-bit block, so every packing lane, saturated block and boundary is reached by the boundary-length grammar."
TECHNIQUE["C01"] = "bounded-exhaustive enumeration of inputs x configurations against a linear-scan reference model"
PROPS["C02"] = dict(
    level="exploration",
    engine="E1",
    parts=[dict(bin="e1_rank_sel", opts={"prop": "C02"}),
           dict(bin="e1_huge", opts={"prop": "C02"}, shards=12, tag="huge")],
    rule=RS_RULE,
    alphabet="Select9; SelectAdapt/SelectZeroAdapt::{new(m), with_span(L,m), with_inv(k,m)} k in {0,1,3,5,12} (thorough 0,1,2,3,4,5,9,12), m in {0,1,3} (thorough 0..3), L in {1,64,8192}; Select(Zero)AdaptConst<K,M> for (0,0) (1,0) (2,1) (4,2) (12,3) (13,0); Select(Zero)Small x5 with_inv(b) b in {1,2,8,100}; both nesting orders; bases AddNumBits<BitVec>, Rank9, RankSmall",
    bound={"quick": "same vectors as C01 quick; all r in 0..=count+1 and usize::MAX (boundary set beyond 2200); four vectors longer than 2^32 bits with ones more than 2^32 apart (64-bit span encoding) and select_zero across the 2^32 boundary; the three all-ones vectors of C01 under four selectors (ranks around 2^32, an upper block without inventory entry); six (thorough nine) dense vectors of 2^32+k (thorough 2^33+k) bits described by word-periodic segments (zeros / ones / alternating / one per word) with closed-form rank and select as the model - empty first or middle upper block, full first upper block, runs across the 2^32 boundary - under 8 selector stacks, probed around every segment boundary and every multiple of 2^32", "thorough": "same vectors as C01 thorough"},
    oracle="ones/zeros position lists of the Vec<bool> model: select(r) = Some(position of the r-th one) iff r < m, select_zero likewise; rank(select(r)) = r on stacks that offer both",
    assumptions=STRICT + ["the 64-bit span encoding (ones more than 2^32 bits apart) is exercised by four hand-picked vectors only (counters inventory_entries_*_span and spill_words, read through a cfg(sux_verif) accessor, report how many entries of each encoding the built structures contain)"],
)
LEVEL_TEXT["C02"] = "Exhaustive enumeration of shaped bit vectors x tail states x every selection structure, parameter value and nesting order, every rank r compared with the reference position lists."
TECHNIQUE["C02"] = "bounded-exhaustive enumeration of inputs x configurations against a linear-scan reference model"

EF_RULE = "case = (monotone sequence, upper bound u, builder); families: (a) ALL non-decreasing sequences of length <= N over 0..=M x several u; (b) (n,u) split probes n*2^k-1, n*2^k, n*2^k+1 for all k plus 2^63-1, 2^63, MAX-1, MAX with values spread to end exactly at u, all-0 and all-u; (c) n=0 and n=1 for u in {0,1,5,2^40,MAX-1,MAX}; (d) l=0 duplicate runs crossing word boundaries; (e) 4096+-1 / 8192+-1 elements (inventory quantum of the default selectors); (f) two clusters 2^20 / 2^40 apart; (g) clustered sequences of 66..260 (thorough 520) elements (head of 1 / 2 / n/2 / n-2 small values, the rest just below u; three clusters) so that runs of empty high-bit buckets span one or more whole 64-bit words of the upper-bits array; (i) 40 000-element sequences whose second inventory block of the upper bits spans exactly 2^16 - 1, 2^16, 2^16 + 1, 2^17 - 1, 2^17 + 1 bits; (h) size class: 40 000 and 70 001 (thorough also 22 000, 140 000) elements - a dense run followed by an outlier, two distant clusters, an arithmetic progression with a loose u - so that the selectors on the upper bits hold many inventory entries of the wider span classes; every case is run on 5-7 selection back-ends; non-trivial = at least two distinct values"
PROPS["C03"] = dict(
    level="exploration",
    engine="E1",
    parts=[dict(bin="e1_ef", opts={"prop": "C03"})],
    rule=EF_RULE + "; plus every invalid push (out of order, above u, (n+1)-th) after every prefix of every sequence with n <= 3",
    alphabet="builders push / extend / From<slice> / concurrent set in every permutation of indices (n<=4); back-ends plain, EfSeq, EfDict, EfSeqDict, SelectZeroAdapt(SelectAdapt), SelectZeroAdaptConst<2,1>(SelectAdaptConst<2,1>), SelectZeroAdapt(Select9(Rank9)), SelectZeroSmall(SelectSmall(RankSmall<1,9>))",
    bound={"quick": "N=6, M=14, 4-6 values of u; n<=12 in (b); every delivery of an invalid value (push, one-element extend, extend with the valid rest) after every delivery of the valid prefix, all non-monotone slices of <= 4 values over 5 values given to From", "thorough": "N=9, M=17, 6 values of u; n<=40 in (b); all run lengths 1..=200 in (d)"},
    oracle="the sequence itself: len, get(i) all i, iter/into_iter with exact len() before every next, iter_from(k)/into_iter_from(k) for every k in 0..=n; iter and iter_from through the rest of the Iterator protocol (nth, skip, step_by, count, last, size_hint, polling after the end); an invalid push panics, further invalid values after it are rejected as well, and the builder continues as if none of it had happened",
    assumptions=STRICT,
)
LEVEL_TEXT["C03"] = "Exhaustive enumeration of all short monotone sequences over a small universe plus boundary (n,u) probes over the whole usize range, on every builder and selection back-end, compared element by element with the input sequence."
TECHNIQUE["C03"] = "bounded-exhaustive enumeration of inputs x builders x back-ends against the sequence as reference model"
PROPS["C04"] = dict(
    level="exploration",
    engine="E1",
    parts=[dict(bin="e1_ef", opts={"prop": "C04"})],
    rule=EF_RULE,
    alphabet="index_of, contains, succ, succ_strict, pred, pred_strict on every dictionary back-end; queries: every q in 0..=max+2 (neighbours of elements for large universes) plus u-1,u,u+1,u+2, u+2^k, 2u, 2^32, 2^32+1, 2^63, MAX-1, MAX",
    bound={"quick": "same sequences as C03 quick", "thorough": "same sequences as C03 thorough"},
    oracle="order-theoretic definitions evaluated by linear scan on the sorted Vec; with duplicates any index holding the returned value is accepted",
    assumptions=STRICT,
)
LEVEL_TEXT["C04"] = "Exhaustive enumeration of sequences as in C03 with a query set covering the whole usize range (below the first element, at, between, above the last element, around u, far above u), each answer compared with its order-theoretic definition."
TECHNIQUE["C04"] = "bounded-exhaustive enumeration of inputs x boundary-value queries against order-theoretic definitions on a sorted Vec"

PROPS["C09"] = dict(
    level="exploration",
    engine="E1",
    parts=[dict(bin="e1_rcl")],
    rule="case = (list of strings, block size k); ALL sequences of length <= N over the short alphabet {\"\", a, ab, abc, abd, b, e-acute, e-acute a, U+10FFFF}; ALL sequences of length <= 4 (thorough 5) over 12 strings of multi-byte characters sharing their leading bytes (e-acute/e-grave, U+4E00/U+4E01, U+1F600/U+1F601, ...); ALL sequences of length <= 3 (thorough 4) over 12 words of 8 bytes and more that differ at several offsets of the same 8-byte word; all sequences of length <= 3 containing at least one of a^127, a^128, a^129 b (rear lengths crossing 127/128); sequences of length <= 2 (thorough 3) containing a^16511 or a^16512 c (crossing 16511/16512); the rear-length family [x^r, y] for EVERY r <= 1500 (thorough 40 000) and offsets with pairwise different bytes inside the 2-, 3- and 4-byte classes of the variable-byte code (thorough: a stride through the 3- and 4-byte classes and the 4/5-byte boundary, 270 MB strings); sorted word lists of 150 (thorough 600) strings with shared prefixes for k up to 64; sorted, unsorted and duplicate-bearing lists all occur; non-trivial = at least 2 strings",
    alphabet="k in {1,2,3,4,5} (sorted word lists also 8,16,64); probes: every alphabet string, proper prefixes/extensions, strings sorting before/between/after",
    bound={"quick": "N=6", "thorough": "N=7; rear lengths crossing 2 113 664 (third code boundary) with 2 MB strings"},
    oracle="Vec<String>: len, get(i), get_in_place(i) all i; iter/lend/into_lender/into_iter and iter_from(j)/lend_from(j)/into_iter_from(j) for every j in 0..=n with exact remaining length before every next; index_of(s) returns an index holding s iff s was pushed, contains agrees; get(n) panics",
    assumptions=STRICT,
)
LEVEL_TEXT["C09"] = "Exhaustive enumeration of all short string lists over an alphabet chosen for the code's branches (empty string, shared prefixes, multi-byte UTF-8, rear lengths crossing the variable-byte code boundaries) x block sizes, every accessor compared with the pushed list."
TECHNIQUE["C09"] = "bounded-exhaustive enumeration of inputs x block sizes against Vec<String>"

PROPS["C10"] = dict(
    level="exploration",
    engine="E1",
    parts=[dict(bin="e1_bulk")],
    rule="copy: per (word type, width, backend, from) all (to,len) pairs - ALL (from,to,len) triples over vectors of ceil(3 BITS/w)+2 aperiodic elements for u8 (thorough: also u16), boundary grid (from,to in 0..=2 BITS/w+1; len in {0,1,2,BITS/w+-1,2 BITS/w+-1,n,n+1}) for wider words; backends Vec, Box, &mut [W] with a dirty spare word; branch-hit counters for the six code paths of copy are reported; apply_in_place: every (W,width) x len in {0,1,k-1,k,k+1,2k+1} x backends (new, new_unaligned, dirty spare word, Box) with a logging callback, a cumulative callback through the unchecked variant, and a too-wide result; try_chunks_mut: all (width, len <= 3k, chunk size <= len+1); get_unaligned: every word type x EVERY width 0..=BITS x 4 lengths x every index, with and without the padding word; thorough: par_* on vectors of 2-2.5 x RAYON_MIN_LEN words",
    alphabet="word types u8,u16,u32,u64,usize,u128; widths: all for u8 (u16 in thorough), boundary sets otherwise",
    bound={"quick": "as in rule", "thorough": "ALL copy triples for every width of u16, u32 and usize, 9 widths of u64 and 10 of u128; every width of every word type for apply_in_place; every width of u8/u16/u32/usize for try_chunks_mut"},
    oracle="element-by-element definitions on Vec<W>; raw backend words outside the written element range unchanged; callback argument log equals the contents in index order; try_chunks_mut returns Err exactly when documented and views address the corresponding elements; get_unaligned equals get whenever it returns and panics for inadmissible widths",
    assumptions=STRICT,
)
LEVEL_TEXT["C10"] = "Exhaustive enumeration of (from,to,len) alignments (all triples for 8-bit words, where every relative bit alignment and every single/multi-word span combination occurs within a few hundred elements), widths, lengths and backends, each compared with the element-by-element definition and with a raw-word footprint check."
TECHNIQUE["C10"] = "bounded-exhaustive enumeration of (from,to,len,width,word type,backend) against element-wise reference definitions"

PROPS["C18"] = dict(
    level="exploration",
    engine="E1",
    parts=[dict(bin="e1_sig_store")],
    rule="case = (signature type, value type, bucket bits b, max shard bits m, shard bits s <= m, online/offline); inside each case ALL multisets of size <= 4 over 2^max(b,m) signature classes (class = top bits of the signature; two distinguishable signatures per class, so equal signatures also occur) are pushed; plus skewed sets (all in class 0, all in the last class, two classes x 3000, 2500 spread) on the configurations the builder really uses (m = 16 with b in {0,1,3,8} and s in {0,1,2,3,4}) and a few more; every (b,m,s) with s<=m is enumerated, fewer/equal/more shard bits than bucket bits all occur",
    alphabet="S in {[u64;2],[u64;1]}; V in {u64,u8,EmptyVal}; b,m in 0..=3 (thorough 0..=4)",
    bound={"quick": "b,m <= 3, multisets <= 4 ([u64;2],u64) and <= 3 (others)", "thorough": "b,m <= 4, all six (S,V) pairs"},
    oracle="BTreeMap-style reference: shard j = pairs whose top s bits are j (s=0: one shard), multiset equality incl. values; shard_sizes() equals the lengths; len() equals the number pushed; iter() twice and into_iter() agree",
    assumptions=STRICT + ["offline stores use temporary files under the system temp dir, removed by the store itself"],
)
LEVEL_TEXT["C18"] = "Exhaustive enumeration of all (bucket bits, max shard bits, shard bits) triples up to 3-4 bits x all small pushed multisets x both store implementations x signature and value types, compared with a reference sharding by the top bits."
TECHNIQUE["C18"] = "bounded-exhaustive enumeration of configurations x pushed multisets against a reference sharding"

PROPS["C20"] = dict(
    level="exploration",
    engine="E1",
    parts=[dict(bin="e1_lenders")],
    rule="case = (lender kind: LineLender over Cursor / File, Zstd- and GzipLineLender over Cursor / File (opened by path and from an open File), Take(n) or none, input text); inside each case ALL histories of <= 3 rounds (consume c items, rewind), c in {0,1,L-1,L,L+1 (reads past the end)}, followed by a full pass; texts: ALL texts of <= 3 (thorough 4) lines over {\"\", a, bc, a 9000-byte line (> BufReader capacity), d+CR, a lone CR} x {LF, CRLF} x final terminator present/absent; inputs with lines that are not valid UTF-8 (lent as error items); texts with one very long line (8191..65537, 70000, 131073 bytes; thorough 1 MiB; ASCII and two-byte characters); one 4000-line ~300 KiB text for multi-block compressed streams; streams of 2-3 concatenated zstd frames / gzip members over 6 pieces (including empty ones) and two of 150 KiB each, with the first pass of a fresh lender as reference; FromIntoIterator over ranges and Vec<String> of 0..=4 items; Take(n) for n in {0,1,L-1,L,L+1}; non-trivial = at least 2 items",
    alphabet="LineLender over Cursor and over a real file, ZstdLineLender, GzipLineLender, FromIntoIterator, lender::Take of each",
    bound={"quick": "texts of <= 3 lines, 3 rounds", "thorough": "texts of <= 4 lines, 3 rounds"},
    oracle="after every history a full pass yields exactly the reference lines (reference splitter applied to the text itself: split on LF, one CR immediately before the LF removed, final unterminated non-empty piece kept as is - a lone CR is not a terminator), each Ok; items consumed before a rewind are also compared",
    assumptions=STRICT,
)
LEVEL_TEXT["C20"] = "Exhaustive enumeration of all small inputs x lender kinds x all consume/rewind histories up to three rounds, compared with the reference item sequence after every rewind."
TECHNIQUE["C20"] = "bounded-exhaustive enumeration of inputs x operation histories (consume/rewind) against the first-pass reference"

VF_ASSUME = STRICT + ["builders run with no_logging![]; schedules of the real multi-threaded par_solve are not controlled: only schedule-independent oracles are applied to real builds (values, len), the schedule quantifier is decided on the E5 model and bound to the code by replaying the hook event log of every real par_solve run through the model's transition function"]
PROPS["C07"] = dict(
    level="model_checking",
    engine="E1+E5",
    traces_from_counter=True,
    parts=[dict(bin="e1_vfunc", opts={"prop": "C07", "traces": 1}, timeout_s={"quick": 900, "thorough": 14400}),
           dict(bin="e5_proto", shards=4)],
    rule="E1: case = (type-level configuration, n, run-time configuration): EVERY n in 0..=N with the default configuration; every n in 0..=N1 x every single-axis run-time deviation (offline, low_mem true/false, threads 1/2/3, eps 0.01/0.1, log2_buckets 0/4, seeds 1..3, hint absent/half/2n+7/400000/800000/0, values all-zero/all-MAX/identity, check_dups); EVERY value width 1..=64 (usize; u16 and u8 up to their width) at n in {1,100,1000}; every key is also read through get_unaligned where the backend has it and the width admits it; functions (C08: filters) over 1000 keys of every key type the crate hashes (12 integer types, String, &str, &String, slices of the 12 integer types; keys differing only in their last element / low bytes / high bytes) x both signature widths; builds whose FIRST attempt fails by construction (a harness key type decides the signatures: chosen pairs of keys collide under the first seed asked for and under no later one) for 5 shard/edge x signature combinations x n in {2,3,10,1000,100001,150000} (thorough 800001, 10^6) x 1 or 3 colliding pairs x 6 run-time configurations: the retry must yield a correct structure; all pairs of 14 run-time deviations at n in {0,1,2,3,10,99,100,101(,1000)}; 16 type-level configurations (key types usize/u64/str/String, Box<[u8|u16|u32|u64|usize]>, BitFieldVec<u8|u16|u64|usize>, [u64;1]/[u64;2] x FuseLge3NoShards, FuseLge3FullSigs, Mwhc3Shards, Mwhc3NoShards) for every n in 0..=N2; regime boundaries 50000, 99999..100001, 150000 (2 shards; thorough up to 800001), and 10 000 001 keys (thorough: 5, 10, 20, 45 and 85 million: the expansion factor changes at 5/10/20 million, sharding resumes, the default peeler changes). builds whose first attempt fails by duplicate signature / unsolvable shard (or succeeds) re-run once per protocol event index (0..48, thorough 0..150) with the thread raising that event held for 25 ms - a one-delay sweep of the schedules of the real solver threads, every event log replayed through the model; E5: all reachable states of the par_solve model for workers in 1..=3, shards in 1..=4, every per-shard outcome assignment in {ok, duplicate, unsolvable} (+ empty when shards = 1). non-trivial = n >= 2",
    alphabet="see rule",
    bound={"quick": "N=400, N1=160, N2=130", "thorough": "N=6000, N1=1500, N2=600, sizes to 85 000 000"},
    oracle="E1: Ok(f), f.len() == n, f.get(k_i) == v_i for every pair; termination under a 120 s per-case watchdog; E5: no deadlock, every terminal state consistent (Ok => every shard solved exactly once or empty; a failing shard => Err); binding: every real par_solve event log (thousands per run, including the unsolvable-shard retry path, which small key sets take very often) must be accepted by the model (tau-closure subset construction)",
    assumptions=VF_ASSUME,
    mc_note="states/transitions are those of the E5 protocol model; traces_validated_against_impl = number of real par_solve event logs replayed through the model in this run; the E1 part is reported in evaluations/distinct_nontrivial",
)
LEVEL_TEXT["C07"] = "Two parts. (1) Exhaustive enumeration of every key-set size in a range x a deviation-bounded lattice of builder configurations on the real builder, each built function queried on every key. (2) Explicit-state model checking of the producer/worker/error-channel protocol of par_solve for up to 3 workers and 4 shards with every outcome assignment (deadlock freedom, terminal consistency), with the model bound to the code by replaying the event log of every real par_solve run of part (1) through the model."
TECHNIQUE["C07"] = "bounded-exhaustive enumeration of sizes x configuration lattice on the real builder + explicit-state model checking of the par_solve protocol with trace conformance against the implementation"
PROPS["C08"] = dict(
    level="exploration",
    engine="E1",
    parts=[dict(bin="e1_vfunc", opts={"prop": "C08"}, timeout_s={"quick": 900, "thorough": 14400})],
    rule="case = (backend, hash width b, n, run-time configuration): every n in 0..=N for the 8-bit BitFieldVec<usize> and Box<[u8]> filters; n in {0,1,3,10,100,101,1000} x b in {1,2,3,7,8,9,15,16,31,32,33,63,64} (BitFieldVec<usize>), b in 1..=8 (BitFieldVec<u8>), Box<[u8|u16|u32|u64]>, four other shard/edge logics, every single-axis run-time deviation; BitFieldVec<u16|u32|u64> at their full width and one below; membership is also asked through contains_unaligned (bit-field backends, admissible widths) and must agree with contains on every member and every probe; false positives counted exhaustively over a fixed 2^16-element non-member probe set for EVERY width at n = 10 and n = 1000 (for wide hashes the accepted band is [0, 2]) and at n = 100000 (b in {1,4,8,12} and Box<[u8]>)",
    alphabet="see rule",
    bound={"quick": "N=200", "thorough": "N=1500, sizes also 5000, 150000, 400001"},
    oracle="contains(k) and filter[k] true for every inserted key; len() == n; hash_bits() == b; false-positive count within mean +- (6 sigma + 2) of the binomial(2^16, 2^-b) distribution (deterministic: fixed seeds, fixed probes)",
    assumptions=VF_ASSUME + ["the false-positive statement is a bounded counting statement over a fixed probe set with a stated tolerance, not a proof about the distribution"],
)
LEVEL_TEXT["C08"] = "Exhaustive enumeration of sizes x hash widths x backends x configuration deviations on the real filter builder; membership checked for every inserted key; false positives counted exhaustively over a fixed probe set against a 6-sigma band."
TECHNIQUE["C08"] = "bounded-exhaustive enumeration of sizes x widths x configurations; exhaustive counting over a fixed probe set for the rate"

PROPS["C17"] = dict(
    level="fault_enumeration",
    engine="E4+E5",
    parts=[dict(bin="e4_fault", timeout_s={"quick": 900, "thorough": 7200}), dict(bin="e5_proto", shards=4),
           # the failing-attempt protocol of par_solve under perturbed schedules (the C07 family, relabelled)
           dict(bin="e1_vfunc", opts={"prop": "C07", "traces": 1, "family": "perturbed", "relabel": "C07:C17"}, tag="perturbed-schedules")],
    rule="fault case = (builder kind, n, fault): for every builder kind (function/filter, online/offline store, FuseLge3Shards, FuseLge3NoShards with 64-bit signatures, FuseLge3FullSigs without hint) and n in {0,1,2,5,16} a fault-free reference build determines the number P of passes over the sources (retries after unsolvable shards make P > 1 for most small key sets); then EVERY (pass p, index i <= n) of the key source, every (p, i < n) of the value source and every rewind of either source is failed in turn (first 4 passes (thorough 8) and the last one), plus one pair of faults; the same for keys read as lines through the crate's LineLender and through GzipLineLender / ZstdLineLender (two builder seeds: one whose first attempt succeeds, one that needs three passes) over a reader that fails at EVERY byte offset of every pass and at every seek back to the start (line boundaries, inside lines, end of input) of every pass; duplicate case = (kind, n in {2,3,5,12}, EVERY pair placement (i,j), triples, all-equal, threads 1/3) with check_dups(true); thorough adds one duplicate inside 10 000 and 120 000 keys; E5 part: deadlock freedom of the par_solve model when shards fail; non-trivial = n >= 2",
    alphabet="fault-injecting RewindableIoLender for keys and values (marker errors), duplicate key placements",
    bound={"quick": "n <= 16, first 4 passes + last; duplicate keys at n <= 12 (every pair) and at 200 000 keys (4 shards) with 1 and 2 solver threads", "thorough": "n <= 40, first 8 passes + last, duplicate sets at 10 000, 120 000, 200 000 and 800 000 keys (16 shards)"},
    oracle="the call returns within the watchdog; if a fault was delivered the result is Err and its chain contains the injected marker, never Ok; if the fault position was never reached the result is Ok and every key maps to its value; duplicates: Err(DuplicateKey) after exactly 4 (at least 4 above the sharding threshold, where other transient failures add attempts) signature passes (counted by the lender), never Ok",
    assumptions=VF_ASSUME,
)
LEVEL_TEXT["C17"] = "Exhaustive enumeration of single fault positions (every index of every pass, every rewind) and of duplicate-key placements on the real builders with fault-injecting sources; plus deadlock freedom of the par_solve protocol model when shards fail (E5)."
TECHNIQUE["C17"] = "exhaustive fault-position enumeration with fault-injecting sources on the real builder + explicit-state model checking of the failure paths of the par_solve protocol"

PROPS["C13"] = dict(
    level="model_checking",
    engine="E3",
    parts=[dict(bin="e3_sched", timeout_s={"quick": 1200, "thorough": 14400}),
           dict(bin="e3_free", runner="miri", profile="miri", shards=8, tiers=["thorough"], tag="race-detector")],
    rule="case = one concurrent body (2-3 real threads, 1-2 operations each) explored over all schedules within the preemption bound: (1) AtomicBitVec: ALL unordered pairs of single operations from {set(i,b), swap(i,b), get(i)} x i in {0,1,63,64} (same bit, same word, adjacent words) plus 3-thread swaps on one shared bit and 2-op programs; (2) AtomicBitFieldVec<u8|u16|usize> for widths {1,3,5,7}/{5,11}/{5,13,63}: ALL pairs and (half of / thorough: all) triples of distinct indices among the first 6 elements (same word both inside; adjacent; straddling + inside its low / high word; two straddlers sharing a word), each writer storing one value (thorough: two), plus two writers around an element read concurrently by a third thread; (3) EliasFanoConcurrentBuilder: 6 value sets (l = 0 and l > 0, low parts / high bits sharing a word), EVERY partition of the indices into 2 and 3 threads, ascending and descending order inside a thread",
    alphabet="scheduling points = every atomic load / store / RMW / compare-exchange iteration performed through the hooked slices of AtomicBitVec::{get,set,swap}_unchecked and AtomicBitFieldVec::{get,set}_atomic_unchecked",
    bound={"quick": "preemption bound 2 (bodies with <= 2 operations: unbounded); horizon 10000 points", "thorough": "preemption bound 4"},
    oracle="AtomicBitVec: return values and final bits explained by some sequential order of the operations (brute force over all merges); AtomicBitFieldVec: every written element holds its writer's value, every other element unchanged, a concurrent reader of an unwritten element sees its value; EliasFano: the concurrently built structure answers get/iter/succ/pred/index_of like the sequentially built one; a failing schedule is replayed twice and must reproduce",
    assumptions=STRICT + ["sequentially consistent interleavings at atomic-operation granularity; complete for what C13 observes (values after join, return values of single-word RMWs) because per-location modification order is total under every memory ordering and distinct words are independent in both observations (DESIGN.md section 2.3)", "every shared access in these methods is an atomic operation routed through the hooked slice (no unsynchronised shared data) - the thorough tier supports this with a separate free-running pass (bin e3_free: the same kinds of bodies on unsynchronised threads under Miri's data-race detector, 8 scheduler seeds; counters race_detector_*), which is a companion check and not part of the exploration: it contributes no evaluations, states or transitions"],
    mc_note="states = complete executions (distinct schedules) run on the real code under the controlled scheduler; transitions = scheduling points; every execution is an execution of the implementation, so traces_validated_against_impl = transitions",
)
LEVEL_TEXT["C13"] = "Stateless model checking of the real code: real OS threads run the real atomic methods under a token-passing scheduler that owns every interleaving decision at atomic-operation granularity; all schedules within a preemption bound are explored by re-execution (CHESS-style iterative context bounding), with executions containing compare-exchange retries counted as proof that threads collided."
TECHNIQUE["C13"] = "controlled-scheduler stateless exploration of real threads (DFS over schedules with preemption bounding) with per-schedule linearizability / final-state oracle"

PROPS["C11"] = dict(
    level="exploration",
    engine="E1",
    parts=[dict(bin="e1_space", timeout_s={"quick": 900, "thorough": 7200}, alloc_failure="violation")],
    rule="rank/select: EVERY len in 0..=L and every power of two +-1 up to 2^26 x densities {ones, zeros, one per 512, alternating}; bit vectors and bit-field vectors built or grown only: every len 0..=300 x 9 widths x {new, new_unaligned, push, resize} and collect / extend from iterators with exact, too-large and unknown size hints (filter, take_while, flat_map, chain); Elias-Fano (plain build): ALL (n,u) with n in 0..=64, u in 0..=U plus the split probes n 2^k +-1 and 2^63, MAX; both Elias-Fano builders at n in {1000, 7000, 100000} (thorough to 700000) x u = n 2^k y for k <= 40 and 8 values of y in [1,2); functions/filters: arithmetic num_vertices x num_shards of every ShardEdge for EVERY n <= N then a 1% geometric grid to 10^12 with the largest admissible shard floor(1.01 n / shards), real builds of functions and filters at regime boundaries for 4 value widths, and real builds of functions of EVERY value width (1..=BITS of usize, u16, u8; 7 widths of u32, 6 of u64) on bit-field and boxed backends at 1000 and 100 000 keys; non-trivial = non-empty structure",
    alphabet="additive constants fixed in DESIGN.md section 5 (C11): rank structures and Select9 + 1024 bits; Elias-Fano + 1152 bits; functions 2 segments per shard (MWHC: 3 x 128 cells per shard) + 8 cells; 1.135 applies to the default sharded logic from 100000 keys",
    bound={"quick": "L=5000, U=600, N=60000", "thorough": "L=200000, U=4096, N=4 10^6"},
    oracle="mem_size(SizeFlags::default()) of the structure minus that of the wrapped structure <= documented fraction of the bit length + constant; closed formulas from the property text",
    assumptions=STRICT + ["mem_size as reported by mem_dbg is the measure named by the property"],
)
LEVEL_TEXT["C11"] = "Exhaustive enumeration of every size in a range (plus boundaries up to 2^26 bits / 10^12 keys by arithmetic) for every structure, mem_size compared with the documented bound plus a fixed additive constant."
TECHNIQUE["C11"] = "bounded-exhaustive enumeration of sizes against closed-form space bounds"

PROPS["C15"] = dict(
    level="exploration",
    engine="E1",
    parts=[dict(bin="e1_serde", timeout_s={"quick": 900, "thorough": 3600})],
    rule="case = (structure type, contents): BitVec (Vec/Box), AddNumBits, Rank9, RankSmall x5, Select9, SelectAdapt (two parameterisations), SelectZeroAdapt, three-level compositions, Select(Zero)AdaptConst, Select(Zero)Small, each on 32 bit vectors (incl. ones every 8/16/20/40/64/128/300 bits at three lengths, so that every span class of the selectors occurs at both alignments) (empty, singletons, lengths 63/64/65/1000/4097/70000, sparse with 32-bit spans, dense with a hole); BitFieldVec<W> for the six word types x widths x lengths (Vec and Box); EliasFano plain/EfSeq/EfDict/EfSeqDict on 7 sequences (empty, empty with u>0, singleton, duplicates, 200 values, 5000 clustered, l=0 runs); RearCodedList for k in {1,4,8} on 4 lists; the six ShardEdge parameter structs set up for 0..40 000 000 keys (edges, sort keys and shards of 67 signatures compared); VFunc for 7 (backend, signature, shard/edge) combinations and VFilter x2 on key sets of 0, 1, 10, 1000 (thorough 150000) keys; every case goes through SIX loading paths: serialize+deserialize_full, deserialize_eps from an aligned byte buffer, store+load_full, mmap, load_mmap, load_mem (Select(Zero)Small: the two full-copy paths only - their zero-copy form does not implement the query traits, a compile-time limitation); non-trivial = non-empty contents",
    alphabet="see rule",
    bound={"quick": "as in rule", "thorough": "adds a multi-shard function (150000 keys)"},
    oracle="the complete query alphabet of the owning property (len, get/bits, rank/rank_zero at every position, select/select_zero at every rank, get/iter/iter_from/index_of/succ/pred, get/index_of/contains, get(k) for keys and non-keys, contains) gives identical answers on the original and on the loaded instance",
    assumptions=STRICT + ["little-endian x86-64 only; files are written to a per-run temporary directory"],
)
LEVEL_TEXT["C15"] = "Exhaustive enumeration of (structure type x contents x loading path) over a declared list, each loaded instance compared with the original on the full query alphabet of its type."
TECHNIQUE["C15"] = "bounded-exhaustive enumeration of types x contents x loading paths with differential comparison against the original instance"

PROPS["C12"] = dict(
    level="exploration",
    engine="E1",
    parts=[dict(bin="e1_oob", timeout_s={"quick": 900, "thorough": 3600}),
           dict(bin="e1_oob", profile="vg", runner="valgrind", tag="valgrind", tiers=["thorough"], timeout_s={"thorough": 7200}),
           # in-domain calls: the enumerations of the functional properties, run here for their memory-safety
           # verdicts only (a process abort by the UB checks / a segfault is reported under C12)
           dict(bin="e1_rank_sel", opts={"prop": "C02"}, tag="in-domain-select", crashes_only=True),
           dict(bin="e1_ef", opts={"prop": "C04"}, tag="in-domain-elias-fano", crashes_only=True),
           dict(bin="e1_rank_sel", opts={"prop": "C01"}, tag="in-domain-rank", crashes_only=True, tiers=["thorough"]),
           dict(bin="e1_rcl", tag="in-domain-rear-coded", crashes_only=True, tiers=["thorough"]),
           dict(bin="e1_bulk", tag="in-domain-bulk", crashes_only=True, tiers=["thorough"])],
    rule="case = (structure instance, safe method, out-of-domain argument): argument alphabet {len, len+1, 2 len, len+63, len+64, 2^32, 2^63, MAX/2+1, MAX-1, MAX} for indices / positions / ranks / start positions / query values, absent keys and arbitrary signatures for functions and filters, iterators polled repeatedly after None, pop on empty, zero chunk sizes, block size 0; structures: 24 bit vectors (empty, singleton, word/block boundaries) with BitVec/AtomicBitVec and 13 rank/select stacks, BitFieldVec<u8|u16|usize|u128> x widths x lengths {0,1,k,k+1,3k+1}, AtomicBitFieldVec, plain slices, 9 Elias-Fano sequences (empty with u = 0 and u > 0, singleton, duplicates, last == u == MAX) plus a grid of (n <= 66, 58 universes) x {sequential, concurrent builder} x {last < u, last = u} covering every residue of the upper-bits length modulo 64, 5 rear-coded lists x 3 block sizes, functions over 0/1/2/10/1000 keys for 7 shard/edge x backend combinations and two filters, GF(2) systems, signature store; in addition the in-domain enumerations of C02 and C04 (thorough: also C01, C09, C10) are run for their memory-safety verdicts only; every case is distinct and counted as non-trivial",
    alphabet="see rule; methods documented as unchecked are excluded, safe methods that forward to unchecked code are the target",
    bound={"quick": "as in rule", "thorough": "same table, run twice: strict profile, and a release build without debug assertions under valgrind memcheck (invalid reads/writes attributed to the announced case)"},
    oracle="each call must return or panic by unwinding; a process abort by the standard library's UB checks (out-of-range get_unchecked), SIGSEGV or any other crash is a memory-safety violation (recorded by the supervisor with the source function that performed the access); where the documentation fixes the result for out-of-domain input (rank beyond len = num_ones, select beyond the count = None, index_of/succ/pred of absent or out-of-universe values) the result is checked too",
    assumptions=STRICT + ["raw-pointer reads that bypass get_unchecked are visible only to the valgrind pass of the thorough tier (heap-granular: an access that stays inside the allocation is not seen by it)"],
)
LEVEL_TEXT["C12"] = "Exhaustive enumeration of (structure, safe method, out-of-domain argument) triples over a declared table, executed with the standard library's UB checks enabled in crash-isolated workers, so that any out-of-bounds unchecked access aborts and is reported with its call site."
TECHNIQUE["C12"] = "bounded-exhaustive enumeration of out-of-domain calls under UB-check instrumentation with crash isolation"

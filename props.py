"""Per-property configuration of the supervisor: which engine binaries decide a
property, at what level, with which alphabet / bound / oracle (these strings go
verbatim into the evidence files)."""

STRICT = ["strict profile: opt-level 2 + debug assertions + overflow checks + std UB checks (out-of-range get_unchecked aborts)",
          "x86-64 little endian, target-cpu=native, sux built with --cfg sux_verif (add-only hooks) and feature mwhc"]

PROPS = {}

PROPS["C19"] = dict(
    level="exploration",
    engine="E1",
    parts=[dict(bin="e1_gf2")],
    rule="every system with v variables and <= e equations, each equation any non-empty strictly increasing variable list with any c-bit constant (ordered tuples of equations, so repeated/dependent/contradictory rows all occur); a system is non-trivial when it has >= 2 equations; each system is enumerated exactly once",
    alphabet="(v,e,c) spaces; both solvers; W in {usize,u8}",
    bound={"quick": "(v<=e_max,c): (1,4,2) (2,4,2) (3,4,2) (4,3,2) (4,4,1) (5,3,1); u8 for v<=4,e<=3",
           "thorough": "quick + (4,4,2) (3,5,2) (5,4,1) (6,3,1) (4,5,1)"},
    oracle="brute force over all 2^v assignments per bit-plane decides solvability; Ok(s) => solvable and s satisfies every equation (own evaluation and Modulo2System::check); Err => unsolvable; any panic is a violation",
    assumptions=STRICT,
)

# ---------------------------------------------------------------------------
# MANIFEST texts
NOT_APPLICABLE = {}
LEVEL_NOTE = {"*": "Trusted base: rustc/cargo, the harness reference models (plain Vec/HashMap code), the supervisor. Bounded: holds for the enumerated space only (alphabets and bounds are in the evidence file)."}
DESIGN_REF = {}
LEVEL_TEXT = {}
TECHNIQUE = {}
LEVEL_TEXT["C19"] = "Exhaustive enumeration of every GF(2) system in stated (variables, equations, constant bits) spaces, both solvers, against brute-force solvability; small-scope exhaustive, which is the right level because the solvers' branches (pivot choice, dependent/contradictory rows, lazy peeling of light/heavy variables) are all reached by systems of <= 6 variables."
TECHNIQUE["C19"] = "bounded-exhaustive enumeration of all inputs up to a size bound against a brute-force reference model"

PROPS["C16"] = dict(
    level="exploration",
    engine="E1",
    parts=[dict(bin="e1_shard_edge")],
    rule="case = (ShardEdge impl, n, eps, max_shard choice) set-up through set_up_shards+set_up_graphs; inside each case the cross product of extreme values of both signature words (0,1,2^32+-1,2^63,MAX-1,MAX, alternating, every 2^j, ~2^j, 2^j-1: 190 values per word) is evaluated; a case is non-trivial when the set-up succeeded and is not a duplicate of another max_shard choice",
    alphabet="7 ShardEdge impls (FuseLge3Shards, FuseLge3NoShards x [u64;2]/[u64;1], FuseLge3FullSigs, Mwhc3Shards, Mwhc3NoShards); eps in {0.001,0.01,0.1}; max_shard in {ceil(n/s), floor(1.01 n/s)} (n when s=1)",
    bound={"quick": "every n in 0..=2500, powers of 2 and 10 +-1 to 10^12, 50000 j +-1, values just below each shard-count switch, 12% geometric grid to 10^12; signature grid thinned 1/3 above n=2500 and 1/5 above 10^6",
           "thorough": "every n in 0..=20000, same boundaries, 1% geometric grid to 10^12"},
    oracle="edge(sig) pairwise distinct; < num_vertices*num_shards; inside [shard*nv,(shard+1)*nv); == local_edge(local_sig(sig)) + shard*nv; sort_key < num_sort_keys; shard(sig) == Sig::high_bits(shard_high_bits) (the signature store's function); set-up panics other than the documented too-many-vertices assertion are violations",
    assumptions=STRICT,
)
LEVEL_TEXT["C16"] = "Exhaustive enumeration of graph set-ups over a dense grid of key counts (every small n, every regime boundary, geometric grid to 10^12) times a cross product of extreme signature words, checking the six arithmetic relations of the property on each; the edge computation is pure integer arithmetic whose only branches depend on n-regime and on field extremes, which the grids hit."
TECHNIQUE["C16"] = "bounded-exhaustive enumeration of configurations x boundary-value signature grid against the arithmetic specification"

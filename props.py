"""Per-property configuration of the supervisor: which engine binaries decide a
property, at what level, with which alphabet / bound / oracle (these strings go
verbatim into the evidence files)."""

STRICT = ["strict profile: opt-level 2 + debug assertions + overflow checks + std UB checks (out-of-range get_unchecked aborts)",
          "x86-64 little endian, target-cpu=native, sux built with --cfg sux_verif (add-only hooks) and feature mwhc"]

PROPS = {}

PROPS["C19"] = dict(
    level="exploration",
    engine="E1",
    parts=[dict(bin="e1_gf2")],
    rule="every system with v variables and <= e equations, each equation any non-empty strictly increasing variable list with any c-bit constant (ordered tuples of equations, so repeated/dependent/contradictory rows all occur); a system is non-trivial when it has >= 2 equations; each system is enumerated exactly once",
    alphabet="(v,e,c) spaces; both solvers; W in {usize,u8}",
    bound={"quick": "(v<=e_max,c): (1,4,2) (2,4,2) (3,4,2) (4,3,2) (4,4,1) (5,3,1); u8 for v<=4,e<=3",
           "thorough": "quick + (4,4,2) (3,5,2) (5,4,1) (6,3,1) (4,5,1)"},
    oracle="brute force over all 2^v assignments per bit-plane decides solvability; Ok(s) => solvable and s satisfies every equation (own evaluation and Modulo2System::check); Err => unsolvable; any panic is a violation",
    assumptions=STRICT,
)

# ---------------------------------------------------------------------------
# MANIFEST texts
NOT_APPLICABLE = {}
LEVEL_NOTE = {"*": "Trusted base: rustc/cargo, the harness reference models (plain Vec/HashMap code), the supervisor. Bounded: holds for the enumerated space only (alphabets and bounds are in the evidence file)."}
DESIGN_REF = {}
LEVEL_TEXT = {}
TECHNIQUE = {}
LEVEL_TEXT["C19"] = "Exhaustive enumeration of every GF(2) system in stated (variables, equations, constant bits) spaces, both solvers, against brute-force solvability; small-scope exhaustive, which is the right level because the solvers' branches (pivot choice, dependent/contradictory rows, lazy peeling of light/heavy variables) are all reached by systems of <= 6 variables."
TECHNIQUE["C19"] = "bounded-exhaustive enumeration of all inputs up to a size bound against a brute-force reference model"

#!/usr/bin/env python3
"""Maintains known_findings.json. Usage:
  findings_tool.py fixed <property> <key> <commit-prefix> <what>
  findings_tool.py known <property> <key> <what>
The file is only ever edited by hand / with this tool and committed; checks never write it."""
import json, subprocess, sys
P = '/verif/known_findings.json'
d = json.load(open(P))
kind, prop, key = sys.argv[1:4]
if kind == 'fixed':
    commit = subprocess.run(['git', '-C', '/repo', 'rev-parse', sys.argv[4]], stdout=subprocess.PIPE, text=True).stdout.strip()
    what = sys.argv[5]
    e = {"property": prop, "key": key, "status": "fixed", "commit": commit, "what": what, "line": f"fixed: property={prop} {commit[:12]} {what}"}
else:
    what = sys.argv[4]
    e = {"property": prop, "key": key, "status": "known", "what": what}
d["findings"] = [x for x in d["findings"] if not (x["property"] == prop and x["key"] == key)] + [e]
json.dump(d, open(P, 'w'), indent=1)
print("ok", len(d["findings"]))
